"""A second module with its own generic model: the bound of its TypeVar is a forward reference that can
only be evaluated in *this* module's namespace."""
from dataclasses import dataclass
from typing import Generic, TypeVar

TB = TypeVar("TB", bound="ProductB")


@dataclass
class ProductB:
    title: str
    price: int = 0


@dataclass
class ListingB(Generic[TB]):
    item: TB
    n: int = 0


# the same names as in pools.py on purpose: a TypeVar bound written as a string is a module-less ForwardRef
TM = TypeVar("TM", bound="Money")


@dataclass
class Money:
    amount: int
    cur: str = "EUR"


@dataclass
class MBox(Generic[TM]):
    item: TM
    n: int = 0
