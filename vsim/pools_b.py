"""A second module with its own generic model: the bound of its TypeVar is a forward reference that can
only be evaluated in *this* module's namespace."""
from dataclasses import dataclass
from typing import Generic, TypeVar

TB = TypeVar("TB", bound="ProductB")


@dataclass
class ProductB:
    title: str
    price: int = 0


@dataclass
class ListingB(Generic[TB]):
    item: TB
    n: int = 0
