"""Self-tests of the machinery (DESIGN 10): sensitivity to seeded breakage and determinism."""
import glob
import hashlib
import os
import shutil
import subprocess
import sys
import tempfile

from .common import REPO, VERIF, jdump, jload, wall

PY = "/venv/bin/python"


def _run(cmd, env=None, cwd=None, timeout=3600):
    e = dict(os.environ)
    e.update(env or {})
    p = subprocess.run(cmd, env=e, cwd=cwd, capture_output=True, text=True, timeout=timeout)
    out = "\n".join(ln for ln in (p.stdout + p.stderr).splitlines() if "conda" not in ln)
    return p.returncode, out


def sensitivity(args):
    """Apply every /verif/seeded/*/patch.diff, one at a time, to a scratch worktree of /repo outside
    /repo and /verif; the quick tier of the named check(s) must exit 1 there with a replay that
    reproduces on the mutant and does not on the unchanged tree. Scratch trees are removed at once."""
    only = getattr(args, "only", None)
    dirs = sorted(d for d in glob.glob(os.path.join(VERIF, "seeded", "*")) if os.path.isfile(os.path.join(d, "meta.json")))
    if only:
        dirs = [d for d in dirs if only in os.path.basename(d)]
    results = []
    scratch_root = tempfile.mkdtemp(prefix="adaptix-sens-", dir="/tmp")
    try:
        for d in dirs:
            meta = jload(os.path.join(d, "meta.json"))
            name = meta["id"]
            wt = os.path.join(scratch_root, name)
            row = {"id": name, "property": meta["property"], "detect_with": meta["detect_with"], "checks": {}}
            t0 = wall()
            try:
                rc, out = _run(["git", "-C", REPO, "worktree", "add", "-f", "--detach", wt, "HEAD"])
                if rc != 0:
                    row["error"] = "worktree: " + out[-300:]
                    results.append(row)
                    print(f"ERROR    {name}: {row['error']}", flush=True)
                    continue
                rc, out = _run(["git", "-C", wt, "apply", "--3way", os.path.join(d, "patch.diff")])
                if rc != 0:
                    row["error"] = "apply: " + out[-300:]
                    results.append(row)
                    print(f"ERROR    {name}: {row['error']}", flush=True)
                    continue
                demo = os.path.join(d, "demo.py")
                if os.path.exists(demo):
                    rc_m, _ = _run([PY, demo], env={"PYTHONPATH": os.path.join(wt, "src")}, timeout=300)
                    rc_c, _ = _run([PY, demo], env={"PYTHONPATH": os.path.join(REPO, "src")}, timeout=300)
                    row["demo"] = {"with_patch_exit": rc_m, "without_patch_exit": rc_c}
                if getattr(args, "with_suite", False):
                    rc_s, out_s = _run([PY, "-m", "pytest", "-q", "-p", "no:cacheprovider", "--timeout=900"], cwd=wt,
                                       env={"PYTHONPATH": f"{wt}/src:{wt}/tests/tests_helpers"}, timeout=1800)
                    row["suite"] = out_s.strip().splitlines()[-1] if out_s.strip() else f"exit {rc_s}"
                ev = os.path.join(scratch_root, "ev-" + name)
                rp = os.path.join(scratch_root, "rp-" + name)
                env = {"VERIF_REPO": wt, "VERIF_EVIDENCE_DIR": ev, "VERIF_REPLAY_DIR": rp}
                for chk in meta["detect_with"]:
                    extra = meta.get("check_args") or ["--tier", "quick"]
                    cmd = [os.path.join(VERIF, "check"), chk, *extra, "--seed", str(args.seed)]
                    rc, out = _run(cmd, env={**env, **meta.get("env", {})}, cwd=VERIF, timeout=7200)
                    lines = [ln for ln in out.splitlines() if ln.startswith("VIOLATION")]
                    head = next((ln for ln in out.splitlines() if ln.startswith("[")), "")
                    res = {"exit": rc, "summary": head, "violation_lines": len(lines)}
                    if lines:
                        path = lines[0].split("replay=")[1].strip()
                        key = next((ln.strip() for ln in out.splitlines() if ln.strip().startswith("key=")), "")
                        res["first_key"] = key[:400]
                        rc_r, _ = _run([os.path.join(VERIF, "check"), chk, "--replay", path], env=env, cwd=VERIF, timeout=600)
                        rc_u, _ = _run([os.path.join(VERIF, "check"), chk, "--replay", path],
                                       env={"VERIF_EVIDENCE_DIR": ev, "VERIF_REPLAY_DIR": rp}, cwd=VERIF, timeout=600)
                        res["replay_on_mutant_exit"] = rc_r
                        res["replay_on_unchanged_exit"] = rc_u
                        keep = os.path.join(d, f"replay-{chk}.json")
                        shutil.copyfile(path, keep)
                    row["checks"][chk] = res
                row["detected"] = any(r["exit"] == 1 and r.get("replay_on_mutant_exit") == 1 for r in row["checks"].values())
                if meta.get("known_miss"):
                    row["known_miss"] = meta["known_miss"]
            finally:
                _run(["git", "-C", REPO, "worktree", "remove", "--force", wt])
                shutil.rmtree(os.path.join(scratch_root, "ev-" + name), ignore_errors=True)
                shutil.rmtree(os.path.join(scratch_root, "rp-" + name), ignore_errors=True)
            row["wall_s"] = round(wall() - t0, 1)
            results.append(row)
            tag = "DETECTED" if row.get("detected") else ("MISS(doc)" if row.get("known_miss") else "MISSED  ")
            print(f"{tag} {name:45s} "
                  + " ".join(f"{c}:exit={r['exit']},viol={r['violation_lines']},replay={r.get('replay_on_mutant_exit')}/"
                             f"{r.get('replay_on_unchanged_exit')}" for c, r in row["checks"].items())
                  + (f" demo={row['demo']['with_patch_exit']}/{row['demo']['without_patch_exit']}" if "demo" in row else "")
                  + (f" suite={row['suite']}" if "suite" in row else "") + (f" ERROR {row['error']}" if "error" in row else ""),
                  flush=True)
    finally:
        _run(["git", "-C", REPO, "worktree", "prune"])
        shutil.rmtree(scratch_root, ignore_errors=True)
    out_file = os.path.join(VERIF, "seeded", "RESULTS.json")
    prev = jload(out_file) if os.path.exists(out_file) and only else {"results": []}
    merged = {r["id"]: r for r in prev.get("results", [])}
    merged.update({r["id"]: r for r in results})
    jdump({"seed": args.seed, "results": [merged[k] for k in sorted(merged)]}, out_file)
    missed = [r["id"] for r in results if not r.get("detected") and not r.get("known_miss")]
    documented = [r["id"] for r in results if not r.get("detected") and r.get("known_miss")]
    if documented:
        print(f"documented misses (meta.json known_miss): {documented}")
    print(f"sensitivity: {len(results) - len(missed)} of {len(results)} seeded changes detected by the quick tier"
          + (f"; missed: {missed}" if missed else ""))
    return 0 if not missed else 3


def determinism(args):
    """A sample of seeds per engine executed twice, in fresh interpreters, under two PYTHONHASHSEEDs and
    with 1 and 16 workers; the per-run digests (complete line-level event logs for schedsim, outcome
    and statistics digests for the others) must be identical."""
    n = args.runs or 320
    configs = [("0", 16), ("0", 1 if n <= 64 else 4), ("12345", 16), ("0", 16)]
    ok = True
    for chk in ("C12", "C11", "C20", "C09"):
        digs = []
        for hs, workers in configs:
            rc, out = _run([PY, os.path.join(VERIF, "vsim", "cli.py"), "digests", "--what-check", chk, "--runs", str(n),
                            "--workers", str(workers), "--seed", str(args.seed)],
                           env={"PYTHONHASHSEED": hs, "PYTHONDONTWRITEBYTECODE": "1"}, cwd=VERIF, timeout=3600)
            line = next((ln for ln in out.splitlines() if ln.startswith("DIGESTS")), None)
            if line is None:
                print(f"{chk}: digest run failed (exit {rc}):\n{out[-1500:]}")
                ok = False
                break
            digs.append(line)
        same = len(set(digs)) == 1
        ok = ok and same
        print(f"{chk}: {n} seeds x {len(configs)} configurations (hash seeds / worker counts / repetition): "
              f"{'identical' if same else 'DIVERGED'} {digs[0].split()[1] if digs else ''}")
        if not same:
            for (hs, w), dline in zip(configs, digs):
                print(f"   PYTHONHASHSEED={hs} workers={w}: {dline}")
    return 0 if ok else 2


def batch_digest(per_run):
    h = hashlib.sha256()
    for d in per_run:
        h.update(repr(d).encode())
    return h.hexdigest()[:20]


__all__ = ["batch_digest", "determinism", "sensitivity", "sys"]
