"""Registry: property id -> engine, tiers, task lists."""
from . import driver
from .common import EXIT_HARNESS


def warm_up():
    """Touch every pool entry once on throw-away retorts in the parent, so that lazy imports, typing
    caches and ForwardRef evaluation are identical in every forked image (DESIGN 3.3)."""
    from adaptix import Retort
    from adaptix.conversion import ConversionRetort

    from . import pools
    from .sig import outcome
    for sc in (True, False):
        for dt in pools.DEBUG_TRAILS.values():
            r = Retort(strict_coercion=sc, debug_trail=dt)
            for tn, hint in pools.TYPES.items():
                o, fn = outcome(r.get_loader, hint)
                if o[0] == "ok":
                    for d in pools.battery(tn):
                        outcome(fn, pools.datum(d))
                o, fn = outcome(r.get_dumper, hint)
                if o[0] == "ok":
                    for ob in pools.dump_battery(tn):
                        outcome(fn, pools.obj(ob))
    for name in pools.RECIPES:
        outcome(lambda n=name: Retort(recipe=pools.RECIPES[n]()).get_loader(pools.Node))
    c = ConversionRetort()
    for _cn, (src, dst, objs) in pools.CONVERTERS.items():
        o, fn = outcome(c.get_converter, src, dst)
        if o[0] == "ok":
            for ob in objs:
                outcome(fn, pools.obj(ob))


def dispatch(args):
    what = args.what
    if what == "C12":
        from . import schedsim as eng
        warm_up()
        if args.replay:
            return driver.replay_file(eng, args.replay)
        n = args.runs or (2400 if args.tier == "quick" else 60000)
        tasks = driver.seeds_for(args.seed, "C12", n)
        return driver.run_check(eng, "C12", args.tier, args.seed, tasks, args.workers, time_budget=args.budget)
    if what in ("C11", "C20"):
        from . import histsim as eng
        warm_up()
        if args.replay:
            return driver.replay_file(eng, args.replay)
        profile = what.lower()
        n = args.runs or ({"C11": 4000, "C20": 5000}[what] if args.tier == "quick" else {"C11": 150000, "C20": 200000}[what])
        tasks = [{**t, "cfg": {"profile": profile}} for t in driver.seeds_for(args.seed, what, n)]
        return driver.run_check(eng, what, args.tier, args.seed, tasks, args.workers, time_budget=args.budget)
    if what == "C09":
        from . import bussim as eng
        if args.replay:
            return driver.replay_file(eng, args.replay)
        n = args.runs or (20000 if args.tier == "quick" else 1000000)
        tasks = driver.seeds_for(args.seed, "C09", n)
        return driver.run_check(eng, "C09", args.tier, args.seed, tasks, args.workers, time_budget=args.budget)
    print(f"unknown check {what!r}")
    return EXIT_HARNESS
