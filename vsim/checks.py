"""Registry: property id -> engine, tiers, task lists."""
from . import driver
from .common import EXIT_HARNESS


def warm_up():
    """Touch every pool entry once on throw-away retorts in the parent, so that lazy imports, typing
    caches and ForwardRef evaluation are identical in every forked image (DESIGN 3.3)."""
    from adaptix import Retort
    from adaptix.conversion import ConversionRetort

    from . import pools
    from .sig import outcome
    for sc in (True, False):
        for dt in pools.DEBUG_TRAILS.values():
            r = Retort(strict_coercion=sc, debug_trail=dt)
            for tn, hint in pools.TYPES.items():
                o, fn = outcome(r.get_loader, hint)
                if o[0] == "ok":
                    for d in pools.battery(tn):
                        outcome(fn, pools.datum(d))
                o, fn = outcome(r.get_dumper, hint)
                if o[0] == "ok":
                    for ob in pools.dump_battery(tn):
                        outcome(fn, pools.obj(ob))
    for name in pools.RECIPES:
        outcome(lambda n=name: Retort(recipe=pools.RECIPES[n]()).get_loader(pools.Node))
    c = ConversionRetort()
    for _cn, (src, dst, objs) in pools.CONVERTERS.items():
        o, fn = outcome(c.get_converter, src, dst)
        if o[0] == "ok":
            for ob in objs:
                outcome(fn, pools.obj(ob))


def _engine_tasks(what, args):
    """(engine module, task list) of a property check, shared by the checks and the digest self-test."""
    if what == "C12":
        from . import schedsim as eng
        n = args.runs or (2400 if args.tier == "quick" else 60000)
        return eng, driver.seeds_for(args.seed, "C12", n)
    if what in ("C11", "C20"):
        from . import histsim as eng
        n = args.runs or ({"C11": 4000, "C20": 5000}[what] if args.tier == "quick" else {"C11": 150000, "C20": 200000}[what])
        return eng, [{**t, "cfg": {"profile": what.lower()}} for t in driver.seeds_for(args.seed, what, n)]
    if what == "C09":
        from . import bussim as eng
        n = args.runs or (20000 if args.tier == "quick" else 1000000)
        return eng, driver.seeds_for(args.seed, "C09", n)
    raise ValueError(what)


def dispatch(args):
    what = args.what
    if what == "selftest-sensitivity":
        from . import selftest
        return selftest.sensitivity(args)
    if what == "selftest-determinism":
        from . import selftest
        return selftest.determinism(args)
    if what == "digests":
        from . import selftest
        eng, tasks = _engine_tasks(args.what_check, args)
        if args.what_check != "C09":
            warm_up()
        per = driver.run_digests(eng, tasks, args.workers)
        print(f"DIGESTS {selftest.batch_digest(per)} n={len(per)} errors={sum(1 for d in per if str(d).startswith('ERR'))}")
        return 0
    if what == "C12":
        from . import schedsim as eng
        warm_up()
        if args.replay:
            return driver.replay_file(eng, args.replay)
        n = args.runs or (2400 if args.tier == "quick" else 60000)
        tasks = driver.seeds_for(args.seed, "C12", n)
        return driver.run_check(eng, "C12", args.tier, args.seed, tasks, args.workers, time_budget=args.budget)
    if what in ("C11", "C20"):
        from . import histsim as eng
        warm_up()
        if args.replay:
            return driver.replay_file(eng, args.replay)
        profile = what.lower()
        n = args.runs or ({"C11": 4000, "C20": 5000}[what] if args.tier == "quick" else {"C11": 150000, "C20": 200000}[what])
        tasks = [{**t, "cfg": {"profile": profile}} for t in driver.seeds_for(args.seed, what, n)]
        return driver.run_check(eng, what, args.tier, args.seed, tasks, args.workers, time_budget=args.budget)
    if what == "C09":
        from . import bussim as eng
        if args.replay:
            return driver.replay_file(eng, args.replay)
        n = args.runs or (20000 if args.tier == "quick" else 1000000)
        tasks = driver.seeds_for(args.seed, "C09", n)
        return driver.run_check(eng, "C09", args.tier, args.seed, tasks, args.workers, time_budget=args.budget)
    print(f"unknown check {what!r}")
    return EXIT_HARNESS
