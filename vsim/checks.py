"""Registry: property id -> engine, tiers, task lists."""
import os

from . import driver
from .common import EXIT_HARNESS


def warm_up():
    """Touch every pool entry once on throw-away retorts in the parent, so that lazy imports, typing
    caches and ForwardRef evaluation are identical in every forked image (DESIGN 3.3)."""
    from adaptix import Retort
    from adaptix.conversion import ConversionRetort

    from . import pools
    from .sig import outcome
    for sc in (True, False):
        for dt in pools.DEBUG_TRAILS.values():
            r = Retort(strict_coercion=sc, debug_trail=dt)
            for tn, hint in pools.TYPES.items():
                o, fn = outcome(r.get_loader, hint)
                if o[0] == "ok":
                    for d in pools.battery(tn):
                        outcome(fn, pools.datum(d))
                o, fn = outcome(r.get_dumper, hint)
                if o[0] == "ok":
                    for ob in pools.dump_battery(tn):
                        outcome(fn, pools.obj(ob))
    for name in pools.RECIPES:
        outcome(lambda n=name: Retort(recipe=pools.RECIPES[n]()).get_loader(pools.Node))
    c = ConversionRetort()
    for _cn, (src, dst, objs) in pools.CONVERTERS.items():
        o, fn = outcome(c.get_converter, src, dst)
        if o[0] == "ok":
            for ob in objs:
                outcome(fn, pools.obj(ob))


def _engine_tasks(what, args):
    """(engine module, task list) of a property check, shared by the checks and the digest self-test."""
    if what == "C12":
        from . import schedsim as eng
        n = args.runs or (1200 if args.tier == "quick" else 30000)
        parts = set(os.environ.get("VERIF_C12_PARTS", "random,site,callrace,datascale,presweep,kill").split(","))   # debugging aid
        tasks = driver.seeds_for(args.seed, "C12", n) if "random" in parts else []
        if not args.runs and not getattr(args, "no_sweep", False) and args.what != "digests":
            if args.tier == "quick" and "site" in parts:
                tasks += site_sweep_tasks(eng, args)
            if "callrace" in parts:
                tasks += call_race_sweep_tasks(eng, args)
            if "datascale" in parts:
                tasks += data_scale_sweep_tasks(eng, args)
            if "kill" in parts:
                tasks += kill_sweep_tasks(eng, args)
        share = float(os.environ.get("VERIF_INSTR_SHARE", "0.3" if args.tier == "thorough" else "0"))
        if share > 0:
            tasks = [{**t, "cfg": {"instr_share": share}} for t in tasks]
        if args.tier == "thorough" and not getattr(args, "no_sweep", False) and args.what != "digests" and "presweep" in parts:
            tasks += preemption_sweep_tasks(eng, args)
        return eng, tasks
    if what in ("C11", "C20"):
        from . import histsim as eng
        n = args.runs or ({"C11": 4000, "C20": 8000}[what] if args.tier == "quick" else {"C11": 150000, "C20": 200000}[what])
        tasks = [{**t, "cfg": {"profile": what.lower()}} for t in driver.seeds_for(args.seed, what, n)]
        if what == "C11" and not getattr(args, "no_sweep", False) and args.what != "digests":
            tasks += crashpoint_sweep_tasks(eng, args)
            tasks += call_phase_sweep_tasks(args)
        return eng, tasks
    if what == "C09":
        from . import bussim as eng
        n = args.runs or (15000 if args.tier == "quick" else 600000)
        return eng, driver.seeds_for(args.seed, "C09", n)
    raise ValueError(what)


SWEEP_TYPES_QUICK = ["Node", "Tree", "RA", "LinkedInt", "Holder", "Outer1"]
SWEEP_TYPES_THOROUGH = ["Node", "ListNode", "Tree", "RA", "RB", "LinkedInt", "LinkedStr", "Outer1", "Outer2", "Holder", "OptNode",
                        "DictStrNode", "GInt", "GListInt", "PairIntStr", "UM1M3", "ULM1LM2", "UListIntStr", "OptLit01", "GLit01",
                        "ListM1", "DictStrM1", "NT", "TD", "AT", "WithDefaults", "SnakeCase"]
SIBLING = {"Outer1": "Outer2", "Outer2": "Outer1", "Holder": "Node", "Node": "Holder", "ListNode": "Node", "RA": "RB", "RB": "RA",
           "LinkedInt": "LinkedStr", "LinkedStr": "LinkedInt", "GInt": "GListInt", "OptNode": "Node", "DictStrNode": "ListNode",
           "UM1M3": "ListM1", "ListM1": "DictStrM1", "Tree": "Tree"}


CALL_SWEEP = [("ListInt", "lbad", "l1"), ("SetInt", "lbad", "l1"), ("TupIntEll", "lbad", "l1"), ("DequeInt", "lbad", "l1"),
              ("DictStrInt", "dbad", "dA1"), ("ListM1", "lm_bad", "lm"), ("ListListInt", "ll_bad", "ll"), ("ListInt", "lbad2", "l1"),
              ("Node", "node4_bad", "node4"), ("UListIntStr", "lbad", "l1")]


def call_phase_sweep_tasks(args):
    """Crash points inside *calls*: a load of data whose first element is bad is interrupted at its k-th
    function entry (k = 1..25), then valid and invalid data are loaded through the same (cached) loader."""
    tasks = []
    trails = ["ALL", "FIRST", "DISABLE"]
    for ti, (t, bad, good) in enumerate(CALL_SWEEP):
        for k in range(1, 26):
            for ei, exc in enumerate(("base", "recursion")):
                if args.tier != "thorough" and (k + ei + ti) % 2:
                    continue
                opts = {"strict_coercion": (k + ti) % 3 != 0, "debug_trail": trails[(k + ei) % 3]}
                handle = {"base": "Retort", "recipe": "plain", "opts": opts}
                prog = [{"op": "load", "h": 0, "t": t, "d": bad}, {"op": "load", "h": 0, "t": t, "d": good},
                        {"op": "load", "h": 0, "t": t, "d": bad}, {"op": "dump", "h": 0, "t": t, "o": __import__("vsim.pools", fromlist=["x"]).dump_battery(t)[0]}]
                tasks.append({"scenario": {"engine": "histsim", "profile": "c11", "seed": f"callsweep:{t}:{bad}:{exc}:{k}",
                                           "handles": [handle], "ops": prog,
                                           "faults": [{"kind": "interrupt", "op": 0, "when": "call", "k": k, "exc": exc}],
                                           "norm_cache": 128, "focus": ["sweep"], "sweep": {"type": t, "call": True}}})
    return tasks


def crashpoint_sweep_tasks(eng, args):
    """Crash-point sweep (DESIGN 5): for each base creation call, count its N function entries on a fresh
    retort in a pristine image, then for k = 1..N (thorough: all; quick: a seeded sample) run
    [creation interrupted at entry k; the same request again; a call with valid nested data; a sibling
    type that shares inner requests]. Every later answer must equal the pristine reference."""
    import random

    from . import pools
    from .procpool import fork_call
    rng = random.Random(args.seed ^ 0xC11)
    thorough = args.tier == "thorough"
    types = SWEEP_TYPES_THOROUGH if thorough else SWEEP_TYPES_QUICK
    per_type = None if thorough else 250
    tasks = []
    variants = [("get_loader", "base"), ("get_dumper", "base"), ("get_loader", "recursion")]
    for ti, t in enumerate(types):
        for vi, (kind, exc) in enumerate(variants):
            if not thorough and (ti + vi) % 3 != 0 and kind != "get_loader":
                continue
            opts = {"strict_coercion": (ti + vi) % 2 == 0, "debug_trail": ["ALL", "FIRST", "DISABLE"][(ti + vi) % 3]}
            recipe = "chain_node_children" if t in ("Outer1", "Outer2") else "plain"
            handle = {"base": "Retort", "recipe": recipe, "opts": opts}
            first = {"op": kind, "h": 0, "t": t}
            d0 = eng.ops.static_ref_descs([handle], [first])[0]
            try:
                n = fork_call(eng.compute_ref, ({"op": "entries", "of": d0},), 120.0, "sweep-count")
            except Exception:  # noqa: BLE001
                continue
            sib = SIBLING.get(t, t)
            prog = [first, {"op": kind, "h": 0, "t": t}]
            if kind == "get_loader":
                prog += [{"op": "load", "h": 0, "t": t, "d": pools.battery(t)[0]},
                         {"op": "load", "h": 0, "t": sib, "d": pools.battery(sib)[0]},
                         {"op": "dump", "h": 0, "t": t, "o": pools.dump_battery(t)[0]}]
            else:
                prog += [{"op": "dump", "h": 0, "t": t, "o": pools.dump_battery(t)[0]},
                         {"op": "dump", "h": 0, "t": sib, "o": pools.dump_battery(sib)[0]},
                         {"op": "load", "h": 0, "t": t, "d": pools.battery(t)[0]}]
            ks = list(range(1, n + 1))
            if per_type is not None and len(ks) > per_type:
                ks = sorted(rng.sample(ks, per_type))
            for k in ks:
                tasks.append({"scenario": {"engine": "histsim", "profile": "c11", "seed": f"sweep:{t}:{kind}:{exc}:{k}",
                                           "handles": [handle], "ops": prog,
                                           "faults": [{"kind": "interrupt", "op": 0, "k": k, "exc": exc}],
                                           "norm_cache": 128, "focus": ["sweep"], "sweep": {"type": t, "of": n}}})
    return tasks


C12_SWEEP_BASES = [
    # (recipe, opts, thread 0 op, thread 1 op)
    ("plain", ("load", "Node", "node4"), ("load", "Node", "node4")),
    ("plain", ("load", "Node", "node4"), ("dump", "Node", "o_node3")),
    ("plain", ("load", "Tree", "tree3"), ("load", "Tree", "tree3")),
    ("plain", ("load", "RA", "ra3"), ("load", "RB", "rb3")),
    ("plain", ("load", "LinkedInt", "linked_int"), ("load", "LinkedStr", "linked_str")),
    ("plain", ("load", "Holder", "holder"), ("load", "Node", "node4")),
    ("chain_node_children", ("load", "Outer1", "outer"), ("load", "Outer2", "outer")),
    ("plain", ("load", "Lit01", "i1"), ("load", "LitFT", "bT")),
    ("plain", ("load", "GLit01", "g_v1"), ("load", "GLitFT", "g_vT")),
    ("plain", ("load", "Holder", "holder"), ("load", "Unsupported", "unsupported")),
    ("nm_camel_shared", ("dump", "RB", "o_rb"), ("dump", "RA", "o_ra")),
    ("plain", ("load", "ULM1LM2", "lm"), ("load", "ULM2LM1", "lm")),
    # 12: a thread derives a retort (replace) from a warm shared retort while another thread makes a first-time request
    ("plain", ("replace", {"strict_coercion": False}), ("load", "Tree", "tree3"), [("load", "Node", "node4")]),
    # 13: the same with extend
    ("plain", ("extend", "chain_int_last"), ("dump", "RA", "o_ra"), [("load", "Holder", "holder")]),
    # 14: two threads building converters at once, one from a stub with extra parameters
    ("conv", ("get_converter", "M1M2"), ("get_converter", "Outer"), []),
    # 15-19: scale. The shared retort has served n0 distinct types (prologue), one thread makes an ordinary first request
    # that re-uses the oldest cache entries while the other adds 150 more types, crossing 256 / 512 / 1024 / 2048 / 4096
    ("plain", ("load", "M2", "m_ab"), ("bulk", 150, 180), [("load", "M1", "m_ab"), ("bulk", 180, 0)]),
    ("plain", ("load", "M2", "m_ab"), ("bulk", 150, 440), [("load", "M1", "m_ab"), ("bulk", 440, 0)]),
    ("plain", ("load", "M2", "m_ab"), ("bulk", 150, 950), [("load", "M1", "m_ab"), ("bulk", 950, 0)]),
    ("plain", ("dump", "ListM2", "o_lm2"), ("bulk", 150, 1980), [("dump", "M1", "o_m1"), ("bulk", 1980, 0)]),
    ("plain", ("load", "M2", "m_ab"), ("bulk", 150, 4020), [("load", "M1", "m_ab"), ("bulk", 4020, 0)]),
    # 20: converter code generated at once from a stub with extra parameters (ctx[i] accesses) and from a plain pair
    ("conv", ("get_converter", "ImplTags"), ("get_converter", "Outer"), []),
    # 21: generic models of two modules whose TypeVar bounds are forward references (the shared normaliser's namespace)
    ("plain", ("load", "ListingA", "listing_a"), ("load", "ListingB", "listing_b")),
    # 22: dump(obj) with the type inferred from the object, two classes, the dumpers exist already
    ("plain", ("dump_infer", "M1", "o_m1"), ("dump_infer", "M2", "o_m2"), [("dump", "M1", "o_m1"), ("dump", "M2", "o_m2")]),
]
C12_SCALE_BASES = {15, 16, 17, 18, 19}
# in the scale bases only the sites that read or write the shared caches are swept (the bulk thread is long)
SCALE_SWEEP_FILES = ("_internal/retort/builtin_mediator.py", "_internal/morphing/facade/retort.py",
                     "_internal/retort/operating_retort.py", "_internal/retort/searching_retort.py",
                     "_internal/code_tools/compiler.py")


C12_INSTR_SWEEP_BASES = {0, 3, 9}
C12_QUICK_SITE_SWEEP = [(0, 0), (3, 0), (9, 0), (9, 1), (12, 0), (13, 0),     # (base index, primary thread)
                        (15, 0), (16, 0), (17, 0), (18, 0), (19, 0), (20, 0), (20, 1),
                        (16, 1), (17, 1), (21, 0), (22, 0), (22, 1)]      # the bulk thread itself stopped once at each cache / compiler site


def _sweep_base(bi):
    entry = C12_SWEEP_BASES[bi]
    recipe, a, b = entry[:3]
    prologue = entry[3] if len(entry) > 3 else []

    def mk(o):
        if o[0] == "load":
            return {"op": "load", "h": 0, "t": o[1], "d": o[2]}
        if o[0] == "dump":
            return {"op": "dump", "h": 0, "t": o[1], "o": o[2]}
        if o[0] == "dump_infer":
            return {"op": "dump", "h": 0, "t": o[1], "o": o[2], "infer": True}
        if o[0] == "replace":
            return {"op": "replace", "h": 0, "opts": o[1]}
        if o[0] == "extend":
            return {"op": "extend", "h": 0, "recipe": o[1]}
        if o[0] == "get_converter":
            return {"op": "get_converter", "h": 0, "conv": o[1]}
        if o[0] == "bulk":
            return {"op": "bulk", "h": 0, "n": o[1], "start": o[2]}
        raise ValueError(o)
    if recipe == "conv":
        handle = {"base": "ConversionRetort", "recipe": "plain"}
    else:
        handle = {"base": "Retort", "recipe": recipe,
                  "opts": {"strict_coercion": bi % 2 == 0, "debug_trail": ["ALL", "FIRST", "DISABLE"][bi % 3]}}
    return {"engine": "schedsim", "cluster": "sweep", "handle": handle, "prologue": [mk(o) for o in prologue],
            "threads": [[mk(a)], [mk(b)]], "norm_cache": 128}


# call races swept completely: (type, datum of the primary thread, datum of the other thread, debug_trail)
C12_CALL_RACE_SWEEP = [
    ("TupIntStr", "tup_is", "tup_Ts", "DISABLE"), ("TupLit01", "tup_01", "tup_FT", "DISABLE"), ("TupListDict", "tup_ld", "tup_ld", "ALL"),
    ("ListInt", "l1", "lTF", "DISABLE"), ("DictStrListInt", "dAl", "dA1", "FIRST"), ("UListIntStr", "l1", "s1", "DISABLE"),
    ("M1", "m_ab", "m_aTb", "ALL"), ("Node", "node4", "node1", "DISABLE"), ("SetInt", "l1", "lTF", "ALL"),
]


# data scale, swept completely: (type, generator, recipe, n0) - the loader has seen n0 distinct data, the primary thread
# calls it with the very first datum again and is preempted once at every step, the other thread feeds 150 new data
C12_DATA_SCALE_SWEEP = [("DateTime", "dt_fmt", "dt_format", 110), ("DateTime", "dt_fmt", "dt_format", 230), ("DateTime", "dt_iso", "plain", 230),
                        ("Decimal", "dec", "plain", 230), ("UUID", "uuid", "plain", 480), ("str", "str", "plain", 1000)]


def data_scale_sweep_tasks(eng, args):
    from .procpool import fork_call
    tasks = []
    for ci, (t, g, rcp, n0) in enumerate(C12_DATA_SCALE_SWEEP):
        handle = {"base": "Retort", "recipe": rcp, "opts": {"strict_coercion": True, "debug_trail": ["ALL", "DISABLE"][ci % 2]}}
        gl = {"op": "get_loader", "h": 0, "t": t}
        base = {"engine": "schedsim", "cluster": "datascale", "handle": handle,
                "prologue": [gl, {"op": "bulk_call", "c": 0, "gen": g, "n": n0, "start": 0}],
                "threads": [[gl, {"op": "bulk_call", "c": 0, "gen": g, "n": 1, "start": 0}],
                            [gl, {"op": "bulk_call", "c": 0, "gen": g, "n": 150, "start": n0}]],
                "norm_cache": 128}
        try:
            solo = fork_call(eng.compute_ref, (eng._solo_desc({**base, "policy": {"kind": "solo"}}, 0),), 120.0, "solo")
        except Exception:  # noqa: BLE001
            continue
        for k in range(1, min(solo["steps"], 200) + 1):
            tasks.append({"scenario": {**base, "seed": f"datascale:{ci}:{k}",
                                       "policy": {"kind": "sweep1", "t": 0, "k": k}, "sweep": True}})
    return tasks


C12_KILL_SWEEP = [(0, 0), (3, 0), (9, 0), (11, 1), (13, 1)]     # (base index, thread that is interrupted)


def kill_sweep_tasks(eng, args):
    """Crash points under concurrency: the other thread is parked once inside the lookup/creation/caching code (seeded
    hot site), then the victim runs and is interrupted at its k-th function entry (about 50 evenly spaced k per
    base, both exception shapes), goes on with nothing else to do, and the parked thread resumes."""
    import random

    from .procpool import fork_call
    rng = random.Random(args.seed ^ 0xDEAD)
    tasks = []
    per_base = 50 if args.tier == "quick" else 600
    for bi, victim in C12_KILL_SWEEP:
        base = _sweep_base(bi)
        probe = {**base, "policy": {"kind": "solo"}, "kill": {"t": victim, "frac": 0.0}}
        try:
            solo = fork_call(eng.compute_ref, (eng._solo_desc(probe, victim),), 120.0, "solo")
        except Exception:  # noqa: BLE001
            continue
        n = solo.get("entries", 0)
        if n < 2:
            continue
        other = 1 - victim
        for j, k in enumerate(range(1, n + 1, max(1, n // per_base))):
            tasks.append({"scenario": {**base, "seed": f"kill:{bi}:{victim}:{k}",
                                       "policy": {"kind": "sweep1", "t": other, "mode": "hot", "frac": rng.random(), "f2": rng.random()},
                                       "kill": {"t": victim, "k": k, "exc": "base" if j % 3 else "recursion"}, "sweep": True}})
    return tasks


def call_race_sweep_tasks(eng, args):
    """The loader exists already; two threads call it with different data. The primary thread is preempted once
    at *every* step of its call (calls are short), the other thread runs to completion in between."""
    from .procpool import fork_call
    tasks = []
    for ci, (t, d0, d1, trail) in enumerate(C12_CALL_RACE_SWEEP):
        handle = {"base": "Retort", "recipe": "plain", "opts": {"strict_coercion": ci % 2 == 0, "debug_trail": trail}}
        base = {"engine": "schedsim", "cluster": "callrace", "handle": handle,
                "prologue": [{"op": "load", "h": 0, "t": t, "d": d0}],
                "threads": [[{"op": "load", "h": 0, "t": t, "d": d0}], [{"op": "load", "h": 0, "t": t, "d": d1}]],
                "norm_cache": 128}
        try:
            solo = fork_call(eng.compute_ref, (eng._solo_desc({**base, "policy": {"kind": "solo"}}, 0),), 120.0, "solo")
        except Exception:  # noqa: BLE001
            continue
        for k in range(1, min(solo["steps"], 400) + 1):
            tasks.append({"scenario": {**base, "seed": f"callrace:{ci}:{k}",
                                       "policy": {"kind": "sweep1", "t": 0, "k": k}, "sweep": True}})
    return tasks


def site_sweep_tasks(eng, args):
    """Quick tier: stratified single-preemption sweep. For a few base scenarios, one preemption at *every*
    distinct source line of the retort's lookup/creation/caching code that the primary thread visits
    (its first visit and one seeded later visit), the other thread then running to completion."""
    import random

    from .procpool import fork_call
    rng = random.Random(args.seed ^ 0xC12)
    tasks = []
    for bi, t in C12_QUICK_SITE_SWEEP:
        base = _sweep_base(bi)
        try:
            solo = fork_call(eng.compute_ref, (eng._solo_desc({**base, "policy": {"kind": "solo"}}, t),), 120.0, "solo")
        except Exception:  # noqa: BLE001
            continue
        ks = set()
        for _site, v in sorted(solo["hot"].items()):
            if bi in C12_SCALE_BASES and not _site.startswith(SCALE_SWEEP_FILES):
                continue
            ks.add(v[0])
            ks.add(v[rng.randrange(len(v))])
        for k in sorted(ks):
            tasks.append({"scenario": {**base, "seed": f"site1:{bi}:{t}:{k}",
                                       "policy": {"kind": "sweep1", "t": t, "k": k}, "sweep": True}})
    return tasks


def preemption_sweep_tasks(eng, args):
    """Thorough tier: for each base scenario a complete single-preemption sweep over every step of the
    primary thread that lies in the retort's lookup/creation/caching code, plus every 10th other step."""
    from .procpool import fork_call
    tasks = []
    chosen = getattr(args, "sweep_bases", None)
    chosen = None if not chosen else {int(x) for x in chosen.split(",")}
    for bi in range(len(C12_SWEEP_BASES)):
        if chosen is not None and bi not in chosen:
            continue
        a, b = C12_SWEEP_BASES[bi][1], C12_SWEEP_BASES[bi][2]
        base0 = _sweep_base(bi)
        for t in (0, 1):
            if t == 1 and (a == b or bi in C12_SCALE_BASES):
                continue
            base = dict(base0)
            try:
                solo = fork_call(eng.compute_ref, (eng._solo_desc({**base, "policy": {"kind": "solo"}}, t),), 120.0, "solo")
            except Exception:  # noqa: BLE001
                continue
            ks = {k for v in solo["hot"].values() for k in v}
            if bi not in C12_SCALE_BASES:     # (a scale run costs seconds: only the lookup/creation/caching sites there)
                ks.update(range(1, solo["steps"] + 1, 10))
            for k in sorted(ks):
                tasks.append({"scenario": {**base, "seed": f"sweep1:{bi}:{t}:{k}",
                                           "policy": {"kind": "sweep1", "t": t, "k": k}, "sweep": True}})
            if bi in C12_INSTR_SWEEP_BASES:
                # the same at opcode granularity inside the shared-state files: every instruction site, up to 16 visits
                ibase = {**base, "granularity": "instr"}
                try:
                    solo = fork_call(eng.compute_ref, (eng._solo_desc({**ibase, "policy": {"kind": "solo"}}, t),), 120.0, "solo")
                except Exception:  # noqa: BLE001
                    continue
                ks = {k for site, v in solo["hot"].items() if "@" in site for k in v}
                for k in sorted(ks):
                    tasks.append({"scenario": {**ibase, "seed": f"sweep1i:{bi}:{t}:{k}",
                                               "policy": {"kind": "sweep1", "t": t, "k": k}, "sweep": True}})
    return tasks


def dispatch(args):
    what = args.what
    if what == "selftest-sensitivity":
        from . import selftest
        return selftest.sensitivity(args)
    if what == "selftest-determinism":
        from . import selftest
        return selftest.determinism(args)
    if what == "digests":
        from . import selftest
        eng, tasks = _engine_tasks(args.what_check, args)
        if args.what_check == "C12" and os.environ.get("VERIF_C12_WARM", "0") == "1":
            warm_up()
        per = driver.run_digests(eng, tasks, args.workers)
        print(f"DIGESTS {selftest.batch_digest(per)} n={len(per)} errors={sum(1 for d in per if str(d).startswith('ERR'))}")
        return 0
    if what in ("C09", "C11", "C12", "C20"):
        eng = {"C12": "schedsim", "C11": "histsim", "C20": "histsim", "C09": "bussim"}[what]
        import importlib
        engm = importlib.import_module("vsim." + eng)
        if what == "C12" and os.environ.get("VERIF_C12_WARM", "0") == "1":
            warm_up()      # all checks start cold on purpose: see DESIGN 13.2 ("cold images")
        if args.replay:
            return driver.replay_file(engm, args.replay)
        engm, tasks = _engine_tasks(what, args)
        return driver.run_check(engm, what, args.tier, args.seed, tasks, args.workers, time_budget=args.budget)
    print(f"unknown check {what!r}")
    return EXIT_HARNESS
