"""./check <ID> [--tier quick|thorough] [--replay F] [--runs N] [--workers N] [--seed S]"""
import argparse
import faulthandler
import os
import sys

sys.path.insert(0, os.path.dirname(os.path.dirname(os.path.abspath(__file__))))

from vsim.common import EXIT_HARNESS, HarnessError, import_adaptix  # noqa: E402

DEFAULT_SEED = 20260926


def main(argv=None):
    ap = argparse.ArgumentParser()
    ap.add_argument("what")
    ap.add_argument("--tier", default=os.environ.get("VERIF_TIER", "quick"), choices=["quick", "thorough"])
    ap.add_argument("--replay")
    ap.add_argument("--runs", type=int)
    ap.add_argument("--workers", type=int, default=int(os.environ.get("VERIF_WORKERS", "16")))
    ap.add_argument("--seed", type=int, default=int(os.environ.get("VERIF_SEED", DEFAULT_SEED)))
    ap.add_argument("--budget", type=float, help="wall-clock safety net in seconds (exceeding it -> skipped runs, reported)")
    ap.add_argument("--no-sweep", action="store_true", help="C11: skip the crash-point sweep part")
    ap.add_argument("--sweep-bases", help="C12 thorough: comma-separated indices of sweep base scenarios (default: all)")
    ap.add_argument("--only", help="selftest-sensitivity: substring filter on seeded ids")
    ap.add_argument("--with-suite", action="store_true", help="selftest-sensitivity: also run the pinned test suite on each mutant")
    ap.add_argument("--what-check", help="digests: which check's engine to run")
    args = ap.parse_args(argv)
    faulthandler.enable()
    try:
        import_adaptix()
        from vsim import checks
        return checks.dispatch(args)
    except HarnessError as e:
        print(f"HARNESS-ERROR: {e}", file=sys.stderr)
        return EXIT_HARNESS


if __name__ == "__main__":
    sys.exit(main())
