"""Type, data, recipe and retort-construction pools shared by schedsim and histsim.

Everything is addressed by *name* so that scenarios, references and replay files are plain JSON.
Data are stored once and deep-copied on every use (the client owns its arguments).
"""
# ruff: noqa: UP006, UP007, UP035
import collections
import copy
import datetime as _dtm
import enum
import uuid as _uuid
import io
import typing
from dataclasses import dataclass, field
from decimal import Decimal
from typing import (
    Annotated,
    Any,
    DefaultDict,
    Dict,
    FrozenSet,
    Generic,
    Iterable,
    List,
    Literal,
    Mapping,
    MutableMapping,
    NamedTuple,
    NewType,
    Optional,
    Sequence,
    Set,
    Tuple,
    TypedDict,
    TypeVar,
    Union,
)

import attrs

from . import pools_b
from adaptix import (
    Chain,
    DebugTrail,
    ExtraCollect,
    ExtraForbid,
    ExtraKwargs,
    NameStyle,
    P,
    Retort,
    as_is_loader,
    datetime_by_format,
    datetime_by_timestamp,
    dumper,
    enum_by_name,
    flag_by_member_names,
    loader,
    name_mapping,
    validator,
)
from adaptix.conversion import ConversionRetort, coercer, link, link_constant, link_function

try:
    import pydantic
except Exception:  # noqa: BLE001
    pydantic = None


# ------------------------------------------------------------------------------------------------
# models

class Color(enum.IntEnum):
    R = 1
    G = 0


class Status(enum.IntEnum):
    """Same values as Color, other member names."""
    ACTIVE = 1
    BLOCKED = 0


class Shade(enum.Enum):
    DARK = "dark"
    LIGHT = "light"


class Perm(enum.Flag):
    RD = 1
    WR = 2


class FlagGap(enum.Flag):
    """A flag with a skipped bit: the flag provider refuses it from *inside* a cached factory."""
    READ = 1
    EXEC = 4


N1 = NewType("N1", int)
N2 = NewType("N2", int)
N3 = NewType("N3", str)

T = TypeVar("T")
K = TypeVar("K")


@dataclass
class M1:
    a: int
    b: str = "x"


@dataclass
class M2:
    a: int
    b: str = "x"


@dataclass
class M3:
    a: bool
    b: str = "x"


@dataclass
class G(Generic[T]):
    v: T
    w: List[T] = field(default_factory=list)


@dataclass
class Pair(Generic[T, K]):
    first: T
    second: K


@dataclass
class Node:
    value: int
    children: List["Node"] = field(default_factory=list)


@dataclass
class Tree:
    value: int
    left: Optional["Tree"] = None
    right: Optional["Tree"] = None


@dataclass
class RA:
    x: int
    b: Optional["RB"] = None


@dataclass
class RB:
    y: str
    a: Optional["RA"] = None
    peers: List["RB"] = field(default_factory=list)


@dataclass
class Linked(Generic[T]):
    head: T
    tail: Optional["Linked[T]"] = None


@dataclass
class Inner:
    v: int
    tags: List[str] = field(default_factory=list)


@dataclass
class Outer1:
    name: str
    inner: Inner
    node: Node


@dataclass
class Outer2:
    name: str
    inner: Inner
    node: Node


@dataclass
class Holder:
    """Mentions the same recursive type several times (call-cache hits inside one request)."""
    first: Node
    second: Node
    rest: List[Node] = field(default_factory=list)
    by_name: Dict[str, Node] = field(default_factory=dict)


class NT(NamedTuple):
    a: int
    tags: List[int] = []  # noqa: RUF012


@dataclass
class DefM1:
    """Defaults whose hashes collide with DefM2's (hash(-1) == hash(-2)) while the values differ."""
    x: int = -1
    t: Tuple[int, ...] = (-1, 5)


@dataclass
class DefM2:
    x: int = -2
    t: Tuple[int, ...] = (-2, 5)


class DeepDefaults(NamedTuple):
    """Mutable literal defaults that are deeply nested / long when written out."""
    a: int = 0
    cfg: Dict[str, List[Dict[str, int]]] = {"a": [{"k": 1}, {"j": 2}]}  # noqa: RUF012
    long: Dict[str, List[int]] = {"alpha_alpha_alpha_alpha": [1, 2, 3, 4, 5, 6, 7, 8, 9, 10],  # noqa: RUF012
                                  "beta_beta_beta_beta_beta": [11, 12, 13, 14, 15, 16, 17, 18, 19, 20]}


class TD(TypedDict, total=False):
    a: List[int]
    b: Dict[str, int]


@attrs.define
class AT:
    a: List[int]
    b: Set[int] = attrs.Factory(set)


@dataclass
class SnakeCase:
    first_name: str
    last_name_: str = "z"
    _private: int = 0


@dataclass
class WithAny:
    anyf: Any = None
    objf: object = None
    lst: List[Any] = field(default_factory=list)


@dataclass
class WithExtra:
    a: int
    extra: Dict[str, Any] = field(default_factory=dict)


@dataclass
class WithExtra2:
    """Extra data collected into (and extracted from) several fields at once."""
    a: int
    e1: Dict[str, Any] = field(default_factory=dict)
    e2: Dict[str, Any] = field(default_factory=dict)


@dataclass
class WithDefaults:
    xs: List[int] = field(default_factory=list)
    m: Dict[str, List[int]] = field(default_factory=dict)
    s: Set[int] = field(default_factory=set)
    t: Tuple[int, ...] = ()
    n: Optional[List[int]] = None


class KwModel:
    """Plain class with **kwargs for ExtraKwargs."""

    def __init__(self, a: int, **kwargs: Any):
        self.a = a
        self.kwargs = kwargs

    def __eq__(self, other):
        return type(other) is KwModel and (self.a, self.kwargs) == (other.a, other.kwargs)

    __hash__ = None


@dataclass
class StreamHolder:
    blob: typing.IO[bytes]
    arr: bytearray = field(default_factory=bytearray)


@dataclass
class Unsupported:
    """A field type no builtin provider serves: natural failed request."""
    ok: int
    bad: typing.Callable[[int], int] = None


@dataclass
class UserFG:
    name: str
    perm: FlagGap


@dataclass
class GroupFG:
    title: str
    default_perm: FlagGap


@dataclass
class FwdUser:
    """Forward reference that is unresolvable until `LateBound` is bound into this module."""
    x: int
    late: Optional["LateBound"] = None


@dataclass
class _LateBoundImpl:
    z: int


def bind_late():
    globals()["LateBound"] = _LateBoundImpl


def unbind_late():
    globals().pop("LateBound", None)


if pydantic is not None:
    class PM(pydantic.BaseModel):
        a: int
        items: List[int] = []  # noqa: RUF012
else:
    PM = None


TA = TypeVar("TA", bound="ProductA")


@dataclass
class ProductA:
    name: str
    price: int = 0


@dataclass
class ListingA(Generic[TA]):
    item: TA
    n: int = 0


TM = TypeVar("TM", bound="Money")


@dataclass
class Money:
    amount: int
    cur: str = "USD"


@dataclass
class MBox(Generic[TM]):
    item: TM
    n: int = 0


@dataclass
class TNode:
    """Recursion through a constant-length tuple: the tuple loader is re-entered while it is running."""
    link: Tuple[int, Optional["TNode"]]


@dataclass
class WithExtra3:
    """Several extra targets, all required."""
    a: int
    e1: Dict[str, Any]
    e2: Dict[str, Any]


@dataclass
class WithExtra4:
    """Several required extra targets typed Any: their dumped values are the object's own mappings."""
    a: int
    e1: Any
    e2: Any


@dataclass
class WithExtra5:
    """An as-is field and a mapping field next to an extra target whose keys may collide with their names."""
    a: int
    meta: Any = None
    labels: Dict[str, Any] = field(default_factory=dict)
    extra: Dict[str, Any] = field(default_factory=dict)


@dataclass
class TupHolder:
    items: Tuple[int, typing.Unpack[Tuple[str, ...]]]


LitBigT = Literal["red", "green", "blue", "black", "white", "grey"]


@dataclass
class Pixel:
    color: LitBigT
    shade: Shade = Shade.DARK
    tint: Color = Color.R
    perm: Perm = Perm.RD


def _make_dup(tag_value):
    """Two distinct model classes with the same name and module (legal: classes made by a factory)."""
    @dataclass
    class Dup:
        x: int
        tag: str = tag_value
    return Dup


DupA, DupB = _make_dup("A"), _make_dup("B")


@dataclass
class DefF:
    """Defaults that are == to DefB's but of another type."""
    x: float = 0.0
    y: float = 1.0
    t: Tuple[int, ...] = (0, 1)
    name: str = "n"


@dataclass
class DefB:
    x: bool = False
    y: bool = True
    t: Tuple[bool, ...] = (False, True)
    name: str = "n"


# conversion models
@dataclass
class SrcInner:
    xs: List[int]
    m: Dict[str, List[int]] = field(default_factory=dict)


@dataclass
class DstInner:
    xs: List[int]
    m: Dict[str, List[int]] = field(default_factory=dict)


@dataclass
class SrcMap:
    labels: Dict[str, int]
    opt: Optional[Dict[str, int]] = None
    seq: List[int] = field(default_factory=list)


@dataclass
class DstMap:
    """Destination fields annotated with the abstract collection types."""
    labels: Mapping[str, int]
    opt: Optional[Mapping[str, Optional[int]]] = None
    seq: Sequence[int] = ()


@dataclass
class SrcOuter:
    inner: SrcInner
    items: List[SrcInner] = field(default_factory=list)
    opt: Optional[List[int]] = None
    same: List[int] = field(default_factory=list)
    anyv: Any = None
    name: str = "n"


@dataclass
class DstOuter:
    inner: DstInner
    items: List[DstInner]
    opt: Optional[List[int]] = None
    same: List[int] = field(default_factory=list)
    anyv: Any = None


@dataclass
class DstOuterSame:
    """Destination reusing the *source* inner type: same-type fields."""
    inner: SrcInner
    items: List[SrcInner]
    same: List[int] = field(default_factory=list)


@dataclass
class DstRenamed:
    inner: DstInner
    title: str


@dataclass
class CNodeSrc:
    value: int
    children: List["CNodeSrc"] = field(default_factory=list)


@dataclass
class CNodeDst:
    value: int
    children: List["CNodeDst"] = field(default_factory=list)


@dataclass
class CSrc:
    a: int
    b: int


@dataclass
class CDst:
    a: int
    c: int


@dataclass
class CDstS:
    """Needs two independent providers: a link for `c` and an int -> str coercer for `a`."""
    a: str
    c: int


@dataclass
class M1S:
    a: str
    b: str = "x"


@dataclass
class CDstDq:
    a: int
    tags: Any


def _mk_deque():
    return collections.deque([0])


@dataclass
class CDstTags:
    a: int
    tags: List[int]
    total: int = 0


@dataclass
class SatModel:
    """Unknown input keys are handed to a user saturator and read back by a user extractor."""
    a: int
    more: Dict[str, Any] = field(default_factory=dict)


@dataclass
class SatOpt:
    """Like SatModel, but every own field has a default (with omit_default the own part of a dump is empty)."""
    a: int = 0
    more: Dict[str, Any] = field(default_factory=dict)


@dataclass
class AnnSrc:
    tags: Annotated[List[str], "meta"]
    attrs: Annotated[Dict[str, int], 1]
    inner: Annotated[SrcInner, "x"]
    n: int = 0


@dataclass
class AnnDst:
    tags: List[str]
    attrs: Dict[str, int]
    inner: SrcInner
    n: int = 0


def _saturate(obj, extra):
    obj.more = extra            # keeps the mapping adaptix built for this call


def _extract(obj):
    return obj.more             # hands the object's own mapping to the dumper


def _sum_ab(src):
    return src.a + src.b


# ------------------------------------------------------------------------------------------------
# type pool: name -> hint, with confusable families

TYPES: Dict[str, Any] = {}
FAMILY: Dict[str, str] = {}


def _t(family, **kw):
    for name, hint in kw.items():
        TYPES[name] = hint
        FAMILY[name] = family


_t("literal",
   Lit01=Literal[0, 1], LitFT=Literal[False, True], Lit10=Literal[1, 0], LitTF=Literal[True, False],
   Lit0=Literal[0], LitF=Literal[False], Lit1=Literal[1], LitT=Literal[True], LitColorR=Literal[Color.R],
   LitA1=Literal["a", 1], LitAT=Literal["a", True], LitBytesA=Literal[b"a"], LitA=Literal["a"],
   OptLit01=Optional[Literal[0, 1]], OptLitFT=Optional[Literal[False, True]],
   ULit0Str=Union[Literal[0], str], ULitFStr=Union[Literal[False], str],
   TupLit01=Tuple[Literal[0], Literal[1]], TupLitFT=Tuple[Literal[False], Literal[True]],
   ListLit01=List[Literal[0, 1]], ListLitFT=List[Literal[False, True]],
   GLit01=G[Literal[0, 1]], GLitFT=G[Literal[False, True]],
   LitNone0=Literal[None, 0], LitNoneF=Literal[None, False],
   LitShade=Literal[Shade.DARK], LitShadeStr=Literal["dark"])
_t("iterable",
   ListInt=List[int], listInt=list[int], SeqInt=Sequence[int], SetInt=Set[int], FSetInt=FrozenSet[int],
   TupIntEll=Tuple[int, ...], TupInt=Tuple[int], IterInt=Iterable[int], ListBool=List[bool], ListFloat=List[float],
   DequeInt=collections.deque[int], ListListInt=List[List[int]], ListStr=List[str], ListAny=List[Any],
   TupIntStr=Tuple[int, str], TupBoolStr=Tuple[bool, str], SeqListInt=Sequence[List[int]], IterListInt=Iterable[List[int]],
   TupListDict=Tuple[List[int], Dict[str, int]], TupListEll=Tuple[List[int], ...], SetTupInt=Set[Tuple[int, ...]])
_t("mapping",
   DictStrInt=Dict[str, int], MapStrInt=Mapping[str, int], MMapStrInt=MutableMapping[str, int],
   DDictStrInt=DefaultDict[str, int], DictIntInt=Dict[int, int], DictBoolInt=Dict[bool, int],
   dictStrInt=dict[str, int], DictStrListInt=Dict[str, List[int]], DDictStrListInt=DefaultDict[str, List[int]],
   DictStrAny=Dict[str, Any], MapStrListInt=Mapping[str, List[int]], MMapStrListInt=MutableMapping[str, List[int]])
_t("union",
   UIntStr=Union[int, str], UStrInt=Union[str, int], OptInt=Optional[int], UIntNone=Union[int, None],
   UNoneInt=Union[None, int], PipeIntNone=int | None, UIntStrNone=Union[int, str, None],
   UBoolInt=Union[bool, int], UIntBool=Union[int, bool], UFloatInt=Union[float, int], UIntFloat=Union[int, float],
   UNested=Union[int, Union[str, None]], UListIntStr=Union[List[int], str], OptListInt=Optional[List[int]],
   UM1M3=Union[M1, M3], UM3M1=Union[M3, M1], ULM1LM2=Union[List[M1], List[M2]], ULM2LM1=Union[List[M2], List[M1]],
   UDM1DM2=Union[Dict[str, M1], Dict[str, M2]], UDM2DM1=Union[Dict[str, M2], Dict[str, M1]],
   UDupAB=Union[DupA, DupB], UDupBA=Union[DupB, DupA])
_t("scalar",
   int=int, bool=bool, float=float, str=str, Decimal=Decimal, bytes=bytes, bytearray=bytearray, NoneT=type(None),
   Any=Any, object=object, Color=Color, Status=Status, Shade=Shade, Perm=Perm, BytesIO=io.BytesIO, IOBytes=typing.IO[bytes])
_t("newtype", N1=N1, N2=N2, N3=N3, ListN1=List[N1], ListN2=List[N2])
_t("annotated",
   AnnInt0=Annotated[int, 0], AnnIntF=Annotated[int, False], AnnIntX=Annotated[int, "x"],
   AnnListInt1=Annotated[List[int], 1], AnnListIntT=Annotated[List[int], True])
_t("model",
   M1=M1, M2=M2, M3=M3, ListM1=List[M1], ListM2=List[M2], OptM1=Optional[M1], DictStrM1=Dict[str, M1],
   Inner=Inner, NT=NT, TD=TD, AT=AT, SnakeCase=SnakeCase, WithAny=WithAny, WithExtra=WithExtra,
   WithDefaults=WithDefaults, WithExtra2=WithExtra2, WithExtra3=WithExtra3, WithExtra4=WithExtra4, TNode=TNode, DupA=DupA, DupB=DupB, DefF=DefF, DefB=DefB, KwModel=KwModel, StreamHolder=StreamHolder, ListNT=List[NT], SatModel=SatModel, SatOpt=SatOpt)
_t("generic",
   GInt=G[int], GBool=G[bool], GStr=G[str], GListInt=G[List[int]], PairIntStr=Pair[int, str],
   PairStrInt=Pair[str, int], PairBoolStr=Pair[bool, str], GBare=G, ListingA=ListingA, ListingB=pools_b.ListingB,
   MBoxA=MBox, MBoxB=pools_b.MBox)
_t("recursive",
   Node=Node, ListNode=List[Node], Tree=Tree, RA=RA, RB=RB, LinkedInt=Linked[int], LinkedStr=Linked[str],
   LinkedBool=Linked[bool], Outer1=Outer1, Outer2=Outer2, Holder=Holder, OptNode=Optional[Node],
   DictStrNode=Dict[str, Node])
_t("failing", Unsupported=Unsupported, FwdUser=FwdUser, CallableT=typing.Callable[[int], int],
   ListUnsupported=List[Unsupported], TupUnpack=Tuple[int, typing.Unpack[Tuple[str, ...]]], TupHolder=TupHolder,
   ListTupUnpack=List[Tuple[int, typing.Unpack[Tuple[str, ...]]]], FlagGap=FlagGap, UserFG=UserFG, GroupFG=GroupFG, ListFlagGap=List[FlagGap])
if PM is not None:
    _t("model", PM=PM)
# types whose failed loads carry a structured payload (allowed values, variants) the client can get hold of
_t("model", DeepDefaults=DeepDefaults, ListDeepDefaults=List[DeepDefaults])
_t("model", WithExtra5=WithExtra5)
# values that are unequal but hash alike (hash(-1) == hash(-2) in CPython): keys built from them collide in hash only
_t("literal", LitM1=Literal[-1], LitM2=Literal[-2], LitM1x=Literal[-1, 5], LitM2x=Literal[-2, 5], OptLitM1=Optional[Literal[-1]],
   OptLitM2=Optional[Literal[-2]], ListLitM1=List[Literal[-1]], ListLitM2=List[Literal[-2]])
_t("model", DefM1=DefM1, DefM2=DefM2)
_t("time", DateTime=_dtm.datetime, Date=_dtm.date, Time=_dtm.time, TimeDelta=_dtm.timedelta, UUID=_uuid.UUID,
   ListDateTime=List[_dtm.datetime], OptDate=Optional[_dtm.date], DictStrDateTime=Dict[str, _dtm.datetime])
_t("payload", LitBig=LitBigT, Pixel=Pixel, ListPixel=List[Pixel], ListShade=List[Shade], DictStrLitBig=Dict[str, LitBigT],
   OptLitBig=Optional[LitBigT], ListPerm=List[Perm])

RECURSIVE_TYPES = [n for n, f in FAMILY.items() if f == "recursive"]

# groups of hints that collide under ==, hash, str, location equality or shape: a history that has used one
# member is steered towards the others
CONFUSABLE_GROUPS = [
    ["Lit01", "LitFT", "Lit10", "LitTF"], ["Lit0", "LitF"], ["Lit1", "LitT", "LitColorR"], ["LitA1", "LitAT"],
    ["OptLit01", "OptLitFT"], ["ULit0Str", "ULitFStr"], ["TupLit01", "TupLitFT"], ["ListLit01", "ListLitFT"],
    ["GLit01", "GLitFT"], ["LitNone0", "LitNoneF"], ["LitShade", "LitShadeStr"],
    ["UIntStr", "UStrInt", "UIntStrNone", "UNested"], ["OptInt", "UIntNone", "UNoneInt", "PipeIntNone"],
    ["UBoolInt", "UIntBool"], ["UFloatInt", "UIntFloat"], ["UM1M3", "UM3M1"], ["ULM1LM2", "ULM2LM1"],
    ["UDM1DM2", "UDM2DM1"], ["UDupAB", "UDupBA"], ["DupA", "DupB"], ["DefF", "DefB"],
    ["ListInt", "listInt", "SeqInt", "IterInt", "TupIntEll", "TupInt", "SetInt", "FSetInt", "DequeInt"],
    ["DictStrInt", "dictStrInt", "MapStrInt", "MMapStrInt", "DDictStrInt"],
    ["DictStrListInt", "DDictStrListInt", "MapStrListInt", "MMapStrListInt"],
    ["M1", "M2", "M3", "ListM1", "ListM2", "OptM1", "DictStrM1"], ["Outer1", "Outer2"], ["N1", "N2", "ListN1", "ListN2"],
    ["AnnInt0", "AnnIntF", "AnnIntX"], ["AnnListInt1", "AnnListIntT"], ["GInt", "GBool", "GStr", "GBare"],
    ["PairIntStr", "PairStrInt", "PairBoolStr"], ["ListingA", "ListingB"], ["MBoxA", "MBoxB"],
    ["TupUnpack", "TupHolder", "ListTupUnpack"], ["LinkedInt", "LinkedStr", "LinkedBool"], ["TupIntStr", "TupBoolStr"],
    ["RA", "RB"], ["Node", "ListNode", "OptNode", "DictStrNode", "Holder"], ["int", "bool", "float", "Color", "Status"], ["Color", "Status"],
    ["LitBig", "OptLitBig", "Pixel", "ListPixel", "DictStrLitBig"], ["Shade", "ListShade", "LitShade"], ["Perm", "ListPerm"],
    ["DateTime", "Date", "OptDate", "ListDateTime", "DictStrDateTime"],
    ["LitM1", "LitM2"], ["LitM1x", "LitM2x"], ["OptLitM1", "OptLitM2"], ["ListLitM1", "ListLitM2"], ["DefM1", "DefM2"],
    ["Unsupported", "ListUnsupported", "CallableT"], ["FlagGap", "UserFG", "GroupFG", "ListFlagGap"], ["bytes", "bytearray", "BytesIO", "IOBytes"],
]
PARTNERS: Dict[str, List[str]] = {}
for _g in CONFUSABLE_GROUPS:
    for _m in _g:
        PARTNERS.setdefault(_m, []).extend(x for x in _g if x != _m)

# ------------------------------------------------------------------------------------------------
# data pool (for loaders): name -> datum

NODE4 = {"value": 1, "children": [{"value": 2, "children": [{"value": 3, "children": [{"value": 4, "children": []}]}]},
                                  {"value": 5}]}
NODE4_BAD = {"value": 1, "children": [{"value": 2, "children": [{"value": 3, "children": [{"value": "bad"}]}]}]}
TREE3 = {"value": 1, "left": {"value": 2, "left": {"value": 3}, "right": {"value": 4, "right": {"value": 6}}},
         "right": {"value": 5}}
TREE3_BAD = {"value": 1, "left": {"value": 2, "right": {"value": None}}}
RA3 = {"x": 1, "b": {"y": "s", "a": {"x": 2, "b": {"y": "t", "peers": [{"y": "u", "a": {"x": 3}}]}}}}
RB3 = {"y": "s", "a": {"x": 2, "b": {"y": "t", "a": {"x": 4}}}, "peers": [{"y": "p", "peers": [{"y": "q"}]}]}
LINKED_INT = {"head": 1, "tail": {"head": 2, "tail": {"head": 3, "tail": None}}}
LINKED_STR = {"head": "a", "tail": {"head": "b", "tail": {"head": "c"}}}
LINKED_BOOL = {"head": True, "tail": {"head": False, "tail": {"head": True}}}
OUTER = {"name": "o", "inner": {"v": 1, "tags": ["t"]}, "node": NODE4}
HOLDER = {"first": NODE4, "second": {"value": 9, "children": [{"value": 8, "children": [{"value": 7}]}]},
          "rest": [NODE4, {"value": 0}], "by_name": {"k": NODE4}}

DATA: Dict[str, Any] = {
    "i0": 0, "i1": 1, "bT": True, "bF": False, "sA": "a", "s1": "1", "sDark": "dark", "bytesA": b"a", "b64": "YQ==",
    "none": None, "f1": 1.0, "f0": 0.0, "i2": 2, "sX": "x",
    "l01": [0, 1], "lTF": [True, False], "lFT": [False, True], "l1": [1], "ls1": ["1"], "t1": (1,), "lA": ["a"],
    "l1a": [1, "a"], "lTa": [True, "a"], "ll": [[1], [2, 3]], "lmix": [[1], {"a": 1}], "empty_l": [],
    "dA1": {"a": 1}, "dAT": {"a": True}, "d11": {1: 1}, "dT1": {True: 1}, "dAl": {"a": [1, 2]}, "empty_d": {},
    "dAls": {"a": ["x"], 1: 2}, "lls": [["x"]], "tup_ld": [[1, 2], {"a": 1}],
    "g_vTb": {"v": True, "w": [False, True]},
    "m_ab": {"a": 1, "b": "x"}, "m_aTb": {"a": True, "b": "y"}, "m_a": {"a": 1}, "m_bad": {"a": "no", "b": 3},
    "m_extra": {"a": 1, "b": "x", "zzz": [7], "yyy": {"k": [1]}},
    "lm": [{"a": 1}, {"a": 2, "b": "q"}], "dm": {"k": {"a": 1}},
    "g_v1": {"v": 1}, "g_vT": {"v": True, "w": [0, 1]}, "g_vs": {"v": "s", "w": ["t"]}, "g_vl": {"v": [1], "w": [[2]]},
    "g_v0": {"v": 0, "w": [1, 0]}, "g_vF": {"v": False, "w": [True, False]},
    "pair_is": {"first": 1, "second": "s"}, "pair_si": {"first": "s", "second": 1}, "pair_Ts": {"first": True, "second": "s"},
    "node4": NODE4, "node4_bad": NODE4_BAD, "node1": {"value": 1}, "lnode": [NODE4, {"value": 7}],
    "tree3": TREE3, "tree3_bad": TREE3_BAD, "ra3": RA3, "rb3": RB3,
    "linked_int": LINKED_INT, "linked_str": LINKED_STR, "linked_bool": LINKED_BOOL,
    "outer": OUTER, "outer_bad": {"name": "o", "inner": {"v": "x"}, "node": NODE4_BAD}, "holder": HOLDER,
    "dnode": {"k": NODE4, "j": {"value": 2}},
    "inner": {"v": 1, "tags": ["t", "u"]}, "inner_neg": {"v": -1}, "inner_extra": {"v": 1, "zzz": 1},
    "nt": {"a": 1}, "nt_tags": {"a": 1, "tags": [1, 2]}, "lnt": [{"a": 1}, {"a": 2, "tags": [3]}],
    "td": {"a": [1], "b": {"x": 1}}, "td_a": {"a": [1, 2]},
    "at": {"a": [1], "b": [2, 3]}, "at_a": {"a": [1]},
    "snake": {"first_name": "f", "last_name": "l"}, "snake_camel": {"firstName": "f", "lastName": "l"},
    "withany": {"anyf": [1, [2]], "objf": {"k": [3]}, "lst": [[1], {"a": [2]}]},
    "withextra": {"a": 1, "zzz": [7], "yyy": {"k": [1]}}, "withextra_plain": {"a": 1},
    "withdefaults_empty": {}, "withdefaults_full": {"xs": [1], "m": {"k": [1]}, "s": [1, 2], "t": [1, 2], "n": [3]},
    "kw": {"a": 1, "p": [1], "q": {"z": [2]}}, "kw0": {"p": [1], "q": {"z": [2]}},
    "dd_wd": collections.defaultdict(list, {"xs": [1]}), "dd_snake": collections.defaultdict(str, {"first_name": "f"}),
    "stream": {"blob": "aGVsbG8=", "arr": "YWJj"}, "stream_bad": {"blob": "!!!", "arr": 1},
    "unsupported": {"ok": 1}, "fwd": {"x": 1, "late": {"z": 2}}, "fwd_none": {"x": 1},
    "pm": {"a": 1, "items": [1, 2]},
    "tup_is": [1, "s"], "tup_Ts": [True, "s"], "tup_01": [0, 1], "tup_FT": [False, True],
    "mbox": {"item": {"amount": 5}, "n": 1}, "tnode": {"link": [1, {"link": [2, {"link": [3, None]}]}]},
    "withextra3": {"a": 1, "zzz": [7], "yyy": {"k": [1]}},
    "dup_x": {"x": 1}, "def_name": {"name": "s"}, "listing_a": {"item": {"name": "x", "price": 2}, "n": 1}, "listing_b": {"item": {"title": "y"}, "n": 2},
    "m_legacy": {"legacy_a": 1, "m1_a": 5, "a": 7, "b": "x"},
    "m_paths": {"data": {"a": 1, "meta": {"b": "x"}}, "a": 7, "b": "y"}, "inner_paths": {"payload": {"v": 1, "tags": ["t"]}, "v": 2, "tags": ["u"]},
    "pair_paths": {"items": [1, "s"], "first": 2, "second": "t"},
    "outer_upper": {"name": "o", "inner": {"V": 1, "TAGS": ["t"], "v": 2, "tags": ["u"]}, "node": NODE4},
    "dec": "1.50", "color1": 1, "colorR": "R", "statusA": "ACTIVE", "lbad": ["x", 1, 2, 3], "dbad": {"a": "x", "b": 1, "c": 2}, "lm_bad": [{"a": "no"}, {"a": 1}, {"a": 2}],
    "ll_bad": [["x"], [1], [2]], "lbad2": [1, "x", 2, "y", 3], "perm3": 3, "perm_names": ["RD", "WR"],
    # a defaultdict is a legal mapping input; looking up a missing required key in it has a side effect
    "dd_m_b": collections.defaultdict(int, {"b": "y"}), "dd_m_a": collections.defaultdict(int, {"a": 1}),
    "dd_inner": collections.defaultdict(list, {"tags": ["t"]}),
    "deep_full": {"a": 2, "cfg": {"z": [{"y": 3}]}, "long": {"q": [1]}}, "l_deep": [{}, {"a": 1}, {"cfg": {}}],
    "withextra5": {"a": 1, "meta": {"k": [1]}, "labels": {"env": {"name": "prod"}}, "zzz": [7], "yyy": {"k": [1]}},
    "withextra5_plain": {"a": 1, "extra": {"meta": {"s": [1]}}},
    "withextra5_head": {"head": {"a": 1}, "meta": {"k": [1]}, "labels": {"env": [1]}, "extra": {"zzz": [7]}},
    "im1": -1, "im2": -2, "lm1": [-1, -1], "lm2": [-2], "def_m": {"x": 7},
    "dt_iso": "2020-01-02T03:04:05", "dt_fmt": "2020-01-02 03:04:05", "dt_ts": 1577934245, "date_iso": "2020-01-02", "time_iso": "03:04:05",
    "td": 12.5, "uuid": "12345678-1234-5678-1234-567812345678", "ldt": ["2020-01-02T03:04:05", "2021-01-02T03:04:05"],
    "ldt_fmt": ["2020-01-02 03:04:05", "2021-01-02 03:04:05"], "ddt": {"k": "2020-01-02T03:04:05"},
    "sRed": "red", "sGrey": "grey", "sPink": "pink", "pixel": {"color": "grey", "shade": "dark", "tint": 1, "perm": 3},
    "pixel_min": {"color": "red"}, "pixel_bad": {"color": "pink", "shade": "nope", "tint": 77, "perm": 64},
    "pixel_bad2": {"color": "black", "shade": "dark", "tint": "x"},
    "lpixel": [{"color": "grey"}, {"color": "white", "shade": "dark"}], "lpixel_bad": [{"color": "grey"}, {"color": "gray"}],
    "lshade": ["dark", "dark"], "lshade_bad": ["dark", "darker"], "d_lit": {"k": "blue", "j": "grey"}, "d_lit_bad": {"k": "blu"},
    "lperm": [1, 3], "lperm_bad": [1, 64],
}

# which data make a meaningful probe for which type (battery); every type additionally sees ATOMS
ATOMS = ["i0", "i1", "bT", "bF", "sA", "none", "l01", "lFT", "dA1"]
BATTERY: Dict[str, List[str]] = {
    "GLit01": ["g_v0", "g_v1", "g_vT", "g_vF"], "GLitFT": ["g_v0", "g_v1", "g_vT", "g_vF"],
    "TupLit01": ["tup_01", "tup_FT"], "TupLitFT": ["tup_01", "tup_FT"],
    "ListLit01": ["l01", "lTF", "lFT"], "ListLitFT": ["l01", "lTF", "lFT"],
    "LitShade": ["sDark"], "LitShadeStr": ["sDark"], "LitBytesA": ["bytesA", "b64"],
    "ListInt": ["l1", "ls1", "t1", "lTF", "lbad", "lbad2"], "listInt": ["l1", "ls1", "t1", "lTF", "lbad"], "SeqInt": ["l1", "t1", "lTF"],
    "SetInt": ["l1", "lTF"], "FSetInt": ["l1", "lTF"], "TupIntEll": ["l1", "t1", "lTF"], "TupInt": ["l1", "t1", "l01"],
    "IterInt": ["l1", "t1"], "ListBool": ["lTF", "l01"], "ListFloat": ["l1", "l01"], "DequeInt": ["l1"],
    "ListListInt": ["ll", "ll_bad"], "ListStr": ["lA", "ls1"], "ListAny": ["lmix", "ll"],
    "TupIntStr": ["tup_is", "tup_Ts"], "TupBoolStr": ["tup_is", "tup_Ts"],
    "DictStrInt": ["dA1", "dAT", "d11", "dbad"], "MapStrInt": ["dA1", "dAT", "d11"], "MMapStrInt": ["dA1", "d11"],
    "DDictStrInt": ["dA1", "dAT"], "DictIntInt": ["d11", "dT1"], "DictBoolInt": ["d11", "dT1"], "dictStrInt": ["dA1", "d11"],
    "DictStrListInt": ["dAl", "dA1"], "DDictStrListInt": ["dAl"], "DictStrAny": ["dAl", "dA1"],
    "MapStrListInt": ["dAl", "dAls", "dA1"], "MMapStrListInt": ["dAl", "dAls"], "SeqListInt": ["ll", "lls"], "IterListInt": ["ll"],
    "TupListDict": ["tup_ld"], "TupListEll": ["ll"], "SetTupInt": ["ll"],
    "UIntStr": ["s1", "f1"], "UStrInt": ["s1", "f1"], "UIntStrNone": ["s1", "f1"], "UBoolInt": ["f1"], "UIntBool": ["f1"],
    "UFloatInt": ["f1", "f0"], "UIntFloat": ["f1", "f0"], "UNested": ["s1"], "UListIntStr": ["l1", "s1", "lA"],
    "OptListInt": ["l1", "lA"], "UM1M3": ["m_ab", "m_aTb", "m_bad"], "UM3M1": ["m_ab", "m_aTb", "m_bad"],
    "ULM1LM2": ["lm", "l1"], "ULM2LM1": ["lm", "l1"], "UDM1DM2": ["dm"], "UDM2DM1": ["dm"],
    "UDupAB": ["dup_x"], "UDupBA": ["dup_x"],
    "float": ["f1"], "str": ["s1"], "Decimal": ["dec", "f1"], "bytes": ["b64", "sX"], "bytearray": ["b64"],
    "Any": ["lmix"], "object": ["lmix"], "Color": ["color1", "colorR"], "Status": ["color1", "statusA", "i0"], "Shade": ["sDark"], "Perm": ["perm3", "i2", "perm_names"],
    "BytesIO": ["b64"], "IOBytes": ["b64"],
    "N3": ["s1"], "ListN1": ["l1", "lTF"], "ListN2": ["l1", "lTF"],
    "AnnListInt1": ["l1", "lTF"], "AnnListIntT": ["l1", "lTF"],
    "M1": ["m_ab", "m_aTb", "m_a", "m_bad", "m_extra", "dd_m_b", "dd_m_a", "m_legacy", "m_paths"],
    "M2": ["m_ab", "m_aTb", "m_a", "m_bad", "dd_m_b", "m_legacy"], "M3": ["m_ab", "m_aTb", "m_a", "m_bad", "m_legacy"], "ListM1": ["lm", "lm_bad"], "ListM2": ["lm"], "OptM1": ["m_ab", "m_bad"],
    "DictStrM1": ["dm"], "Inner": ["inner", "inner_neg", "inner_extra", "dd_inner", "inner_paths"], "NT": ["nt", "nt_tags"], "ListNT": ["lnt"],
    "TD": ["td", "td_a"], "AT": ["at", "at_a"], "SnakeCase": ["snake", "snake_camel", "dd_snake"], "WithAny": ["withany"],
    "WithExtra": ["withextra", "withextra_plain"], "WithExtra2": ["withextra", "withextra_plain"], "WithDefaults": ["withdefaults_empty", "withdefaults_full", "dd_wd"],
    "DupA": ["dup_x"], "DupB": ["dup_x"], "DefF": ["empty_d", "def_name"], "DefB": ["empty_d", "def_name"],
    "KwModel": ["kw", "m_a"], "SatModel": ["kw", "m_a"], "SatOpt": ["kw0", "kw"], "StreamHolder": ["stream", "stream_bad"],
    "GInt": ["g_v1", "g_vT", "g_vs"], "GBool": ["g_v1", "g_vT", "g_vTb"], "GStr": ["g_vs", "g_v1"], "GListInt": ["g_vl"],
    "GBare": ["g_v1", "g_vs"], "ListingA": ["listing_a", "listing_b"], "ListingB": ["listing_b", "listing_a"],
    "MBoxA": ["mbox"], "MBoxB": ["mbox"], "TNode": ["tnode"], "WithExtra3": ["withextra3", "withextra"], "WithExtra4": ["withextra3", "withextra"],
    "TupUnpack": ["tup_is"], "TupHolder": ["m_a"], "ListTupUnpack": ["l1"], "PairIntStr": ["pair_is", "pair_si", "pair_Ts", "pair_paths"], "PairStrInt": ["pair_is", "pair_si"],
    "PairBoolStr": ["pair_is", "pair_Ts"],
    "Node": ["node4", "node4_bad", "node1"], "ListNode": ["lnode"], "Tree": ["tree3", "tree3_bad"],
    "RA": ["ra3"], "RB": ["rb3"], "LinkedInt": ["linked_int", "linked_str", "linked_bool"],
    "LinkedStr": ["linked_str", "linked_int"], "LinkedBool": ["linked_bool", "linked_int"],
    "Outer1": ["outer", "outer_bad", "outer_upper"], "Outer2": ["outer", "outer_bad", "outer_upper"], "Holder": ["holder"],
    "OptNode": ["node4", "node4_bad"], "DictStrNode": ["dnode"],
    "Unsupported": ["unsupported"], "FwdUser": ["fwd", "fwd_none"], "ListUnsupported": ["empty_l"],
    "FlagGap": ["i1"], "UserFG": ["m_a"], "GroupFG": ["m_a"], "ListFlagGap": ["l1"],
    "PM": ["pm"],
    "DeepDefaults": ["empty_d", "m_a", "deep_full"], "ListDeepDefaults": ["l_deep"],
    "WithExtra5": ["withextra5", "withextra5_plain", "withextra5_head", "withextra"],
    "LitM1": ["im1", "im2"], "LitM2": ["im2", "im1"], "LitM1x": ["im1", "im2"], "LitM2x": ["im2", "im1"], "OptLitM1": ["im1", "im2", "none"],
    "OptLitM2": ["im2", "im1", "none"], "ListLitM1": ["lm1", "lm2"], "ListLitM2": ["lm2", "lm1"], "DefM1": ["empty_d", "def_m"], "DefM2": ["empty_d", "def_m"],
    "DateTime": ["dt_iso", "dt_fmt", "dt_ts", "date_iso"], "Date": ["date_iso", "dt_iso"], "Time": ["time_iso"], "TimeDelta": ["td", "i1"],
    "UUID": ["uuid", "sA"], "ListDateTime": ["ldt", "ldt_fmt"], "OptDate": ["date_iso", "none"], "DictStrDateTime": ["ddt"],
    "LitBig": ["sRed", "sGrey", "sPink"], "OptLitBig": ["sGrey", "none", "sPink"], "Pixel": ["pixel", "pixel_min", "pixel_bad", "pixel_bad2"],
    "ListPixel": ["lpixel", "lpixel_bad"], "ListShade": ["lshade", "lshade_bad"], "DictStrLitBig": ["d_lit", "d_lit_bad"],
    "ListPerm": ["lperm", "lperm_bad"],
}


def bulk_type(i):
    """The i-th of an unbounded family of distinct, cheap, valid types (scale: a retort that has served hundreds or
    thousands of types). Every member adds at least one entry to the per-retort caches and to the normalisation cache."""
    k = i % 4
    if k == 0:
        return Literal[100000 + i]
    if k == 1:
        return Tuple[Literal[100000 + i], str]
    if k == 2:
        return Dict[str, Literal[f"bulk-{i}"]]
    return Optional[Literal[100000 + i, "x"]]


_DT0 = _dtm.datetime(2001, 2, 3, 4, 5, 6)
# generators of unboundedly many distinct valid data for one loader: name -> (i -> (datum, expected result))
BULK_DATA = {
    "dt_iso": lambda i: ((_DT0 + _dtm.timedelta(hours=i)).isoformat(), _DT0 + _dtm.timedelta(hours=i)),
    "dt_fmt": lambda i: ((_DT0 + _dtm.timedelta(hours=i)).strftime("%Y-%m-%d %H:%M:%S"), _DT0 + _dtm.timedelta(hours=i)),
    "date_iso": lambda i: ((_DT0.date() + _dtm.timedelta(days=i)).isoformat(), _DT0.date() + _dtm.timedelta(days=i)),
    "dec": lambda i: (f"{i}.25", Decimal(f"{i}.25")),
    "int": lambda i: (i + 2, i + 2),
    "str": lambda i: (f"s-{i}", f"s-{i}"),
    "uuid": lambda i: (str(_uuid.UUID(int=i + 1)), _uuid.UUID(int=i + 1)),
    "l_int": lambda i: ([i, i + 1], [i, i + 1]),
    "d_int": lambda i: ({f"k{i}": i}, {f"k{i}": i}),
}
# (type, generator, recipe) triples for data-bulk scenarios
BULK_CALLS = [("DateTime", "dt_iso", "plain"), ("DateTime", "dt_fmt", "dt_format"), ("Date", "date_iso", "plain"),
              ("Decimal", "dec", "plain"), ("int", "int", "plain"), ("str", "str", "plain"), ("UUID", "uuid", "plain"),
              ("ListInt", "l_int", "plain"), ("DictStrInt", "d_int", "plain"), ("ListDateTime", None, "dt_format")]
BULK_CALLS = [b for b in BULK_CALLS if b[1] is not None]


def battery(tname):
    out = list(BATTERY.get(tname, []))
    # empty containers are inputs like any other (and the classic place for a shared pre-built result)
    fam = FAMILY.get(tname)
    if fam == "iterable" and "empty_l" not in out:
        out.insert(min(1, len(out)), "empty_l")
    elif fam == "mapping" and "empty_d" not in out:
        out.insert(min(1, len(out)), "empty_d")
    for a in ATOMS:
        if a not in out:
            out.append(a)
    return out


def datum(dname):
    return copy.deepcopy(DATA[dname])


# ------------------------------------------------------------------------------------------------
# objects pool (for dumpers and converters): name -> factory

def _node(depth, v=1):
    return Node(v, [_node(depth - 1, v * 2), _node(depth - 1, v * 2 + 1)] if depth > 0 else [])


def _tree(depth, v=1):
    if depth == 0:
        return Tree(v)
    return Tree(v, _tree(depth - 1, v * 2), _tree(depth - 1, v * 2 + 1) if depth > 1 else None)


def _linked(vals):
    cur = None
    for x in reversed(vals):
        cur = Linked(x, cur)
    return cur


def _ra():
    return RA(1, RB("s", RA(2, RB("t", None, [RB("u", RA(3))]))))


def _rb():
    return RB("s", RA(2, RB("t", RA(4))), [RB("p", None, [RB("q")])])


def _srcouter():
    return SrcOuter(SrcInner([1], {"k": [1]}), [SrcInner([2]), SrcInner([3], {"j": [4]})], [5], [6, 7], [8, [9]])


def _cnode(depth, v=1):
    return CNodeSrc(v, [_cnode(depth - 1, v * 2), _cnode(depth - 1, v * 2 + 1)] if depth > 0 else [])


OBJECTS: Dict[str, Any] = {
    "o_i0": lambda: 0, "o_i1": lambda: 1, "o_T": lambda: True, "o_F": lambda: False, "o_a": lambda: "a",
    "o_none": lambda: None, "o_f1": lambda: 1.0, "o_dec": lambda: Decimal("1.50"), "o_bytes": lambda: b"abc",
    "o_barr": lambda: bytearray(b"abc"), "o_colorR": lambda: Color.R, "o_colorG": lambda: Color.G, "o_statusA": lambda: Status.ACTIVE, "o_statusB": lambda: Status.BLOCKED,
    "o_dark": lambda: Shade.DARK, "o_perm3": lambda: Perm.RD | Perm.WR,
    "o_l01": lambda: [0, 1], "o_lTF": lambda: [True, False], "o_t01": lambda: (0, 1), "o_s12": lambda: {1, 2},
    "o_fs12": lambda: frozenset({1, 2}), "o_dq": lambda: collections.deque([1, 2]), "o_ll": lambda: [[1], [2, 3]],
    "o_lA": lambda: ["a"], "o_lmix": lambda: [[1], {"a": [1]}],
    "o_dA1": lambda: {"a": 1}, "o_d11": lambda: {1: 1}, "o_dAl": lambda: {"a": [1, 2]},
    "o_ddA1": lambda: collections.defaultdict(int, {"a": 1}),
    "o_ddAl": lambda: collections.defaultdict(list, {"a": [1]}),
    "o_tld": lambda: ([1, 2], {"a": 1}), "o_tll": lambda: ([1], [2, 3]), "o_stup": lambda: {(1,), (2, 3)},
    "o_tis": lambda: (1, "s"), "o_tTs": lambda: (True, "s"),
    "o_m1": lambda: M1(1, "x"), "o_m1T": lambda: M1(True, "y"), "o_m2": lambda: M2(1, "x"), "o_m3": lambda: M3(True, "y"),
    "o_lm1": lambda: [M1(1), M1(2, "q")], "o_lm2": lambda: [M2(1)], "o_dm1": lambda: {"k": M1(1)},
    "o_inner": lambda: Inner(1, ["t", "u"]), "o_nt": lambda: NT(1, [1, 2]), "o_lnt": lambda: [NT(1), NT(2, [3])],
    "o_td": lambda: {"a": [1], "b": {"x": 1}}, "o_at": lambda: AT([1], {2, 3}),
    "o_snake": lambda: SnakeCase("f", "l", 3),
    "o_withany": lambda: WithAny([1, [2]], {"k": [3]}, [[1], {"a": [2]}]),
    "o_withextra": lambda: WithExtra(1, {"zzz": [7], "yyy": {"k": [1]}}),
    "o_withextra2": lambda: WithExtra2(1, {"zzz": [7]}, {"yyy": {"k": [1]}}),
    "o_withdefaults": lambda: WithDefaults(), "o_withdefaults_full": lambda: WithDefaults([1], {"k": [1]}, {1, 2}, (1, 2), [3]),
    "o_kw": lambda: KwModel(1, p=[1]), "o_sat": lambda: _sat(1, {"p": [1], "q": {"z": [2]}}),
    "o_satopt0": lambda: SatOpt(0, {"p": [1], "q": {"z": [2]}}), "o_satopt1": lambda: SatOpt(1, {"p": [1]}),
    "o_annsrc": lambda: AnnSrc(["t", "u"], {"k": 1}, SrcInner([1], {"k": [1]}), 3),
    "o_stream": lambda: StreamHolder(_stream(b"hello world", 3), bytearray(b"abc")),
    "o_bytesio": lambda: _stream(b"hello world", 3), "o_bytesio0": lambda: _stream(b"xyz", 0),
    "o_faulty_stream": lambda: FaultyStream(b"hello world", 3), "o_text_stream": lambda: _text_stream("header|payload", 7),
    "o_stream_faulty": lambda: StreamHolder(FaultyStream(b"hello world", 4), bytearray(b"abc")),
    "o_gint": lambda: G(1, [2, 3]), "o_gT": lambda: G(True, [False]), "o_gstr": lambda: G("s", ["t"]),
    "o_glist": lambda: G([1], [[2]]), "o_g01": lambda: G(0, [1, 0]), "o_gFT": lambda: G(False, [True]),
    "o_pair_is": lambda: Pair(1, "s"), "o_pair_si": lambda: Pair("s", 1), "o_pair_Ts": lambda: Pair(True, "s"),
    "o_node3": lambda: _node(3), "o_node1": lambda: _node(0), "o_lnode": lambda: [_node(2), _node(0, 7)],
    "o_tree3": lambda: _tree(3), "o_ra": _ra, "o_rb": _rb,
    "o_linked_int": lambda: _linked([1, 2, 3]), "o_linked_str": lambda: _linked(["a", "b", "c"]),
    "o_linked_bool": lambda: _linked([True, False, True]),
    "o_outer1": lambda: Outer1("o", Inner(1, ["t"]), _node(3)), "o_outer2": lambda: Outer2("o", Inner(1, ["t"]), _node(3)),
    "o_holder": lambda: Holder(_node(3), _node(2, 9), [_node(1), _node(0)], {"k": _node(2)}),
    "o_dnode": lambda: {"k": _node(2), "j": _node(0)},
    "o_unsupported": lambda: Unsupported(1), "o_fwd": lambda: FwdUser(1, _LateBoundImpl(2)), "o_fwd_none": lambda: FwdUser(1),
    "o_srcouter": _srcouter, "o_srcinner": lambda: SrcInner([1], {"k": [1]}),
    "o_lsrcinner": lambda: [SrcInner([1]), SrcInner([2], {"k": [3]})],
    "o_listing_a": lambda: ListingA(ProductA("x", 2), 1), "o_listing_b": lambda: pools_b.ListingB(pools_b.ProductB("y"), 2),
    "o_deff": lambda: DefF(), "o_defb": lambda: DefB(),
    "o_mbox_a": lambda: MBox(Money(5), 1), "o_mbox_b": lambda: pools_b.MBox(pools_b.Money(5), 1),
    "o_tnode": lambda: TNode((1, TNode((2, TNode((3, None)))))), "o_withextra3": lambda: WithExtra3(1, {"zzz": [7]}, {"yyy": {"k": [1]}}),
    "o_withextra4": lambda: WithExtra4(1, {"zzz": [7]}, {"yyy": {"k": [1]}}),
    "o_empty_list": lambda: [], "o_empty_dict": lambda: {},
    "o_csrc": lambda: CSrc(1, 2), "o_dupA": lambda: DupA(1), "o_dupB": lambda: DupB(2),
    "o_dsrcinner": lambda: {"p": SrcInner([1]), "q": SrcInner([2], {"k": [3]})},
    "o_deep": lambda: DeepDefaults(), "o_deep_full": lambda: DeepDefaults(1, {"z": [{"y": 3}]}, {"q": [1]}),
    "o_ldeep": lambda: [DeepDefaults(), DeepDefaults(2, {}, {})],
    # extra data whose keys collide with the model's own (as-is / mapping) fields
    "o_withextra5": lambda: WithExtra5(1, {"k": 1}, {"env": {"name": "prod"}},
                                       {"meta": {"source": "api"}, "labels": {"env": {"region": "eu"}}, "other": [5]}),
    "o_withextra5_nc": lambda: WithExtra5(2, [1], {"env": [1]}, {"zzz": [7]}),
    # extra data with a mapping under the key of the nested level the layout itself creates, and under an as-is field
    "o_withextra5_head": lambda: WithExtra5(3, {"k": 1}, {"env": {"name": "prod"}}, {"head": {"b": 2}, "meta": {"source": "api"}}),
    "o_im1": lambda: -1, "o_im2": lambda: -2, "o_lm1": lambda: [-1], "o_lm2": lambda: [-2, -2], "o_defm1": lambda: DefM1(),
    "o_defm2": lambda: DefM2(), "o_defm1x": lambda: DefM1(-2, (-2, 5)), "o_defm2x": lambda: DefM2(-1, (-1, 5)),
    "o_dt": lambda: _dtm.datetime(2020, 1, 2, 3, 4, 5), "o_date": lambda: _dtm.date(2020, 1, 2), "o_time": lambda: _dtm.time(3, 4, 5),
    "o_td": lambda: _dtm.timedelta(seconds=12, milliseconds=500), "o_uuid": lambda: _uuid.UUID(int=7),
    "o_ldt": lambda: [_dtm.datetime(2020, 1, 2, 3, 4, 5), _dtm.datetime(2021, 1, 2)], "o_ddt": lambda: {"k": _dtm.datetime(2020, 1, 2)},
    "o_srcmap": lambda: SrcMap({"a": 1}, None, [1, 2]), "o_srcmap_opt": lambda: SrcMap({"a": 1}, {"b": 2}, []),
    "o_grey": lambda: "grey", "o_pixel": lambda: Pixel("grey", Shade.DARK, Color.G, Perm.RD | Perm.WR),
    "o_lpixel": lambda: [Pixel("red"), Pixel("white")], "o_lshade": lambda: [Shade.DARK], "o_d_lit": lambda: {"k": "blue"},
    "o_lperm": lambda: [Perm.RD, Perm.RD | Perm.WR],
}
if PM is not None:
    OBJECTS["o_pm"] = lambda: PM(a=1, items=[1, 2])


def _sat(a, more):
    return SatModel(a, more)


def _stream(content, pos):
    s = io.BytesIO(content)
    s.seek(pos)
    return s


class FaultyStream(io.BytesIO):
    """Simulated storage fault: the first `fail_reads` calls of read() fail like a disk error does. The
    fault counter belongs to the simulated device, not to the datum (it is not part of the signature)."""

    def __init__(self, content, pos, fail_reads=1):
        super().__init__(content)
        self.seek(pos)
        self.fail_reads = fail_reads

    def read(self, *a):
        if self.fail_reads > 0:
            self.fail_reads -= 1
            raise OSError(5, "simulated read error")
        return super().read(*a)


def _text_stream(content, pos):
    s = io.StringIO(content)
    s.seek(pos)
    return s


def obj(oname):
    return OBJECTS[oname]()


DUMP_BATTERY: Dict[str, List[str]] = {
    "Lit01": ["o_i0", "o_i1", "o_T", "o_F"], "LitFT": ["o_i0", "o_i1", "o_T", "o_F"], "Lit10": ["o_i0", "o_T"],
    "LitTF": ["o_i0", "o_T"], "Lit0": ["o_i0", "o_F"], "LitF": ["o_i0", "o_F"], "Lit1": ["o_i1", "o_T"], "LitT": ["o_i1", "o_T"],
    "LitColorR": ["o_colorR", "o_i1"], "LitA1": ["o_a", "o_i1", "o_T"], "LitAT": ["o_a", "o_i1", "o_T"],
    "LitBytesA": ["o_bytes"], "LitA": ["o_a"], "OptLit01": ["o_i0", "o_none", "o_F"], "OptLitFT": ["o_i0", "o_none", "o_F"],
    "ULit0Str": ["o_i0", "o_a", "o_F"], "ULitFStr": ["o_i0", "o_a", "o_F"], "TupLit01": ["o_t01"], "TupLitFT": ["o_t01"],
    "ListLit01": ["o_l01", "o_lTF"], "ListLitFT": ["o_l01", "o_lTF"], "GLit01": ["o_g01", "o_gFT"], "GLitFT": ["o_g01", "o_gFT"],
    "LitNone0": ["o_none", "o_i0"], "LitNoneF": ["o_none", "o_F"], "LitShade": ["o_dark"], "LitShadeStr": ["o_a"],
    "ListInt": ["o_l01", "o_t01"], "listInt": ["o_l01", "o_t01"], "SeqInt": ["o_l01", "o_t01"], "SetInt": ["o_s12"],
    "FSetInt": ["o_fs12"], "TupIntEll": ["o_t01"], "TupInt": ["o_t01"], "IterInt": ["o_l01"], "ListBool": ["o_lTF"],
    "ListFloat": ["o_l01"], "DequeInt": ["o_dq"], "ListListInt": ["o_ll"], "ListStr": ["o_lA"], "ListAny": ["o_lmix"],
    "TupIntStr": ["o_tis", "o_tTs"], "TupBoolStr": ["o_tis", "o_tTs"],
    "DictStrInt": ["o_dA1"], "MapStrInt": ["o_dA1"], "MMapStrInt": ["o_dA1"], "DDictStrInt": ["o_ddA1", "o_dA1"],
    "DictIntInt": ["o_d11"], "DictBoolInt": ["o_d11"], "dictStrInt": ["o_dA1"], "DictStrListInt": ["o_dAl"],
    "DDictStrListInt": ["o_ddAl"], "DictStrAny": ["o_dAl"], "MapStrListInt": ["o_dAl"], "MMapStrListInt": ["o_dAl"],
    "SeqListInt": ["o_ll"], "IterListInt": ["o_ll"], "TupListDict": ["o_tld"], "TupListEll": ["o_tll"], "SetTupInt": ["o_stup"],
    "UIntStr": ["o_i1", "o_a", "o_T"], "UStrInt": ["o_i1", "o_a", "o_T"], "OptInt": ["o_i1", "o_none"],
    "UIntNone": ["o_i1", "o_none"], "UNoneInt": ["o_i1", "o_none"], "PipeIntNone": ["o_i1", "o_none"],
    "UIntStrNone": ["o_i1", "o_a", "o_none"], "UBoolInt": ["o_i1", "o_T"], "UIntBool": ["o_i1", "o_T"],
    "UFloatInt": ["o_i1", "o_f1"], "UIntFloat": ["o_i1", "o_f1"], "UNested": ["o_i1", "o_a", "o_none"],
    "UListIntStr": ["o_l01", "o_a"], "OptListInt": ["o_l01", "o_none"], "UM1M3": ["o_m1", "o_m3"], "UM3M1": ["o_m1", "o_m3"],
    "ULM1LM2": ["o_lm1", "o_lm2"], "ULM2LM1": ["o_lm1", "o_lm2"], "UDM1DM2": ["o_dm1"], "UDM2DM1": ["o_dm1"],
    "UDupAB": ["o_dupA", "o_dupB"], "UDupBA": ["o_dupA", "o_dupB"],
    "int": ["o_i1", "o_T"], "bool": ["o_T", "o_i1"], "float": ["o_f1"], "str": ["o_a"], "Decimal": ["o_dec"],
    "bytes": ["o_bytes"], "bytearray": ["o_barr"], "NoneT": ["o_none"], "Any": ["o_lmix"], "object": ["o_lmix"],
    "Color": ["o_colorR", "o_colorG"], "Status": ["o_statusA", "o_statusB"], "Shade": ["o_dark"], "Perm": ["o_perm3"], "BytesIO": ["o_bytesio", "o_bytesio0"],
    "IOBytes": ["o_bytesio", "o_bytesio0", "o_faulty_stream", "o_text_stream"],
    "N1": ["o_i1"], "N2": ["o_i1"], "N3": ["o_a"], "ListN1": ["o_l01"], "ListN2": ["o_l01"],
    "AnnInt0": ["o_i1"], "AnnIntF": ["o_i1"], "AnnIntX": ["o_i1"], "AnnListInt1": ["o_l01"], "AnnListIntT": ["o_l01"],
    "M1": ["o_m1", "o_m1T"], "M2": ["o_m2"], "M3": ["o_m3"], "ListM1": ["o_lm1"], "ListM2": ["o_lm2"],
    "OptM1": ["o_m1", "o_none"], "DictStrM1": ["o_dm1"], "Inner": ["o_inner"], "NT": ["o_nt"], "ListNT": ["o_lnt"],
    "TD": ["o_td"], "AT": ["o_at"], "SnakeCase": ["o_snake"], "WithAny": ["o_withany"], "WithExtra": ["o_withextra"], "WithExtra2": ["o_withextra2"],
    "WithDefaults": ["o_withdefaults", "o_withdefaults_full"], "DupA": ["o_dupA"], "DupB": ["o_dupB"], "DefF": ["o_deff"], "DefB": ["o_defb"], "KwModel": ["o_kw"], "SatModel": ["o_sat"], "SatOpt": ["o_satopt0", "o_satopt1"], "StreamHolder": ["o_stream", "o_stream_faulty"],
    "GInt": ["o_gint", "o_gT"], "GBool": ["o_gT"], "GStr": ["o_gstr"], "GListInt": ["o_glist"], "GBare": ["o_gint"], "ListingA": ["o_listing_a"], "ListingB": ["o_listing_b"], "MBoxA": ["o_mbox_a"], "MBoxB": ["o_mbox_b"],
    "TNode": ["o_tnode"], "WithExtra3": ["o_withextra3"], "WithExtra4": ["o_withextra4"], "TupUnpack": ["o_tis"], "TupHolder": ["o_i1"], "ListTupUnpack": ["o_l01"],
    "PairIntStr": ["o_pair_is", "o_pair_Ts"], "PairStrInt": ["o_pair_si"], "PairBoolStr": ["o_pair_Ts"],
    "Node": ["o_node3", "o_node1"], "ListNode": ["o_lnode"], "Tree": ["o_tree3"], "RA": ["o_ra"], "RB": ["o_rb"],
    "LinkedInt": ["o_linked_int"], "LinkedStr": ["o_linked_str"], "LinkedBool": ["o_linked_bool"],
    "Outer1": ["o_outer1"], "Outer2": ["o_outer2"], "Holder": ["o_holder"], "OptNode": ["o_node3", "o_none"],
    "DictStrNode": ["o_dnode"],
    "Unsupported": ["o_unsupported"], "FwdUser": ["o_fwd", "o_fwd_none"], "CallableT": ["o_i1"], "ListUnsupported": ["o_l01"],
    "PM": ["o_pm"],
    "DeepDefaults": ["o_deep", "o_deep_full"], "ListDeepDefaults": ["o_ldeep"],
    "WithExtra5": ["o_withextra5", "o_withextra5_nc", "o_withextra5_head"],
    "LitM1": ["o_im1", "o_im2"], "LitM2": ["o_im2", "o_im1"], "LitM1x": ["o_im1"], "LitM2x": ["o_im2"], "OptLitM1": ["o_im1", "o_none"],
    "OptLitM2": ["o_im2", "o_none"], "ListLitM1": ["o_lm1"], "ListLitM2": ["o_lm2"], "DefM1": ["o_defm1", "o_defm1x"], "DefM2": ["o_defm2", "o_defm2x"],
    "DateTime": ["o_dt"], "Date": ["o_date"], "Time": ["o_time"], "TimeDelta": ["o_td"], "UUID": ["o_uuid"], "ListDateTime": ["o_ldt"],
    "OptDate": ["o_date", "o_none"], "DictStrDateTime": ["o_ddt"],
    "LitBig": ["o_grey", "o_a"], "OptLitBig": ["o_grey", "o_none"], "Pixel": ["o_pixel"], "ListPixel": ["o_lpixel"],
    "ListShade": ["o_lshade"], "DictStrLitBig": ["o_d_lit"], "ListPerm": ["o_lperm"],
}


_EMPTY_OBJ = {"ListInt": "o_empty_list", "listInt": "o_empty_list", "SeqInt": "o_empty_list", "IterInt": "o_empty_list",
              "ListListInt": "o_empty_list", "ListStr": "o_empty_list", "ListAny": "o_empty_list", "SeqListInt": "o_empty_list",
              "DictStrInt": "o_empty_dict", "MapStrInt": "o_empty_dict", "DictStrListInt": "o_empty_dict",
              "DictStrAny": "o_empty_dict", "MapStrListInt": "o_empty_dict", "dictStrInt": "o_empty_dict"}


def dump_battery(tname):
    out = list(DUMP_BATTERY.get(tname, ["o_i1", "o_none"]))
    if tname in _EMPTY_OBJ and tname in DUMP_BATTERY:
        out.insert(1, _EMPTY_OBJ[tname])
    return out


# converter pairs: name -> (src hint, dst hint, [object names])
CONVERTERS: Dict[str, Tuple[Any, Any, List[str]]] = {
    "Outer": (SrcOuter, DstOuter, ["o_srcouter"]),
    "OuterSame": (SrcOuter, DstOuterSame, ["o_srcouter"]),
    "Inner": (SrcInner, DstInner, ["o_srcinner"]),
    "MapAbs": (SrcMap, DstMap, ["o_srcmap", "o_srcmap_opt"]),
    "InnerSame": (SrcInner, SrcInner, ["o_srcinner"]),
    "ListInner": (List[SrcInner], List[DstInner], ["o_lsrcinner"]),
    "M1M2": (M1, M2, ["o_m1", "o_m1T"]), "M2M1": (M2, M1, ["o_m2"]), "M1M3": (M1, M3, ["o_m1"]),
    "GIntGInt": (G[int], G[int], ["o_gint"]),
    "Renamed": (SrcOuter, DstRenamed, ["o_srcouter"]),
    "OptInner": (Optional[SrcInner], Optional[DstInner], ["o_srcinner", "o_none"]),
    "DictInner": (Dict[str, SrcInner], Dict[str, DstInner], ["o_dsrcinner"]),
    "InnerTags": (Inner, Inner, ["o_inner"]),
    "NT2M1": (M1, M2, ["o_m1"]),
    "CLink": (CSrc, CDst, ["o_csrc"]),
    "CTags": (CSrc, CDstTags, ["o_csrc"]),
    "CDq": (CSrc, CDstDq, ["o_csrc"]),
    "OptListInner": (Optional[List[SrcInner]], Optional[List[DstInner]], ["o_lsrcinner", "o_empty_list", "o_none"]),
    "OptDictInner": (Optional[Dict[str, SrcInner]], Optional[Dict[str, DstInner]], ["o_dsrcinner", "o_empty_dict", "o_none"]),
    "CLinkStr": (CSrc, CDstS, ["o_csrc"]),
    "ImplExtra": (CSrc, CDst, ["o_csrc"]),
    "ImplTags": (CSrc, CDstTags, ["o_csrc"]),
    "Ann": (AnnSrc, AnnDst, ["o_annsrc"]),
    "AnnList": (Annotated[List[int], "m"], List[int], ["o_l01"]),
    "AnnDict": (Dict[str, List[int]], Annotated[Dict[str, List[int]], "m"], ["o_dAl"]),
    "M1Str": (M1, M1S, ["o_m1"]),
}
def _stub_clink(src: CSrc, c: int) -> CDst:
    ...


def _stub_tags(src: CSrc, tags: List[int], total: int = 0) -> CDstTags:
    ...


# converters made by impl_converter from a stub with extra parameters: name -> (stub, extra arguments factory)
IMPL_STUBS: Dict[str, Any] = {
    "ImplExtra": (_stub_clink, lambda: (5,)),
    "ImplTags": (_stub_tags, lambda: ([1, 2],)),
}

CONV_RECIPES: Dict[str, Any] = {
    "plain": lambda: [],
    "link_title": lambda: [link(P[SrcOuter].name, P[DstRenamed].title)],
    "coerce_int_str": lambda: [coercer(int, str, str)],
    "coerce_int_hash": lambda: [coercer(int, str, _hash_str)],
    "link_b_c": lambda: [link(P[CSrc].b, P[CDst].c)],
    "const_factory_dq": lambda: [link_constant(P[CDstDq].tags, factory=_mk_deque)],
    "const_factory": lambda: [link_constant(P[CDstTags].tags, factory=list), link_function(_sum_ab, P[CDstTags].total)],
    "link_a_c": lambda: [link(P[CSrc].a, P[CDst].c)],
    "link_b_cs": lambda: [link(P[CSrc].b, P[CDstS].c)],
    "link_a_cs": lambda: [link(P[CSrc].a, P[CDstS].c)],
}


# the same provider objects handed to every call (a module-level recipe list, the usual way to write it)
CONV_RECIPES_SHARED: Dict[str, Any] = {}


def conv_recipe(name, shared=False):
    if not shared:
        return CONV_RECIPES[name]()
    if name not in CONV_RECIPES_SHARED:
        CONV_RECIPES_SHARED[name] = CONV_RECIPES[name]()
    return CONV_RECIPES_SHARED[name]


# ------------------------------------------------------------------------------------------------
# recipe variants (by name). Factories build fresh provider objects; SHARED_* are module-level
# instances used by several retorts at once (the documented "providers are reusable" usage).

def _reverse(x):
    return list(reversed(x))


def _inc(x):
    return x + 1


def _nonneg(x):
    return x >= 0


def _hash_str(x):
    return "#" + str(x)


SHARED_NM_CAMEL = name_mapping(name_style=NameStyle.CAMEL)
SHARED_INT_CHAIN = loader(int, _inc, Chain.LAST)

RECIPES: Dict[str, Any] = {
    "plain": lambda: [],
    "nm_camel": lambda: [name_mapping(name_style=NameStyle.CAMEL)],
    "nm_camel_shared": lambda: [SHARED_NM_CAMEL],
    "nm_snake_only": lambda: [name_mapping(SnakeCase, name_style=NameStyle.UPPER)],
    "nm_as_list": lambda: [name_mapping(M1, as_list=True)],
    "nm_omit_default": lambda: [name_mapping(omit_default=True)],
    "nm_extra_forbid": lambda: [name_mapping(Inner, extra_in=ExtraForbid())],
    "nm_extra_collect": lambda: [name_mapping(WithExtra, extra_in="extra", extra_out="extra"),
                                 name_mapping(WithExtra2, extra_in=["e1", "e2"], extra_out=["e1", "e2"]),
                                 name_mapping(WithExtra3, extra_in=["e1", "e2"], extra_out=["e1", "e2"]),
                                 name_mapping(WithExtra4, extra_in=["e1", "e2"], extra_out=["e1", "e2"]),
                                 name_mapping(WithExtra5, extra_in="extra", extra_out="extra"),
                                 name_mapping(KwModel, extra_in=ExtraKwargs())],
    "nm_extra_paths": lambda: [name_mapping(WithExtra5, map={"a": ("head", "a")}, extra_out="extra"),
                               name_mapping(WithExtra, map={"a": ("head", "a")}, extra_out="extra")],
    "nm_extra_forbid_all": lambda: [name_mapping(extra_in=ExtraForbid())],
    "chain_node_children": lambda: [loader(P[Outer1].node.children, _reverse, Chain.LAST)],
    "chain_int_last": lambda: [loader(int, _inc, Chain.LAST)],
    "chain_int_shared": lambda: [SHARED_INT_CHAIN],
    "chain_int_first": lambda: [loader(int, int, Chain.FIRST)],
    "scoped_int": lambda: [loader(P[M1].a, _inc, Chain.LAST)],
    "scoped_node_value": lambda: [loader(P[Node].value, _inc, Chain.LAST)],
    "scoped_linked_head": lambda: [loader(P[Linked[int]].head, _inc, Chain.LAST)],
    "enum_by_name": lambda: [enum_by_name(Color, Status), enum_by_name(Shade)],
    "enum_by_name_all": lambda: [enum_by_name()],
    "validator_inner": lambda: [validator(P[Inner].v, _nonneg, "neg")],
    "dumper_int_str": lambda: [dumper(int, str)],
    "dumper_scoped": lambda: [dumper(P[Node].value, str)],
    "asis_m2": lambda: [as_is_loader(M2)],
    "flag_names": lambda: [flag_by_member_names(Perm)],
    "dt_format": lambda: [datetime_by_format(fmt="%Y-%m-%d %H:%M:%S")],
    "dt_timestamp": lambda: [datetime_by_timestamp()],
    # location-bound name mappings: the same model is laid out differently depending on where it is reached from
    "nm_scoped_upper": lambda: [name_mapping(P[Outer1].inner, name_style=NameStyle.UPPER)],
    "nm_scoped_node": lambda: [name_mapping(P[Holder].first, name_style=NameStyle.UPPER)],
    "nm_saturator": lambda: [name_mapping(SatModel, skip=["more"], extra_in=_saturate, extra_out=_extract),
                             name_mapping(SatOpt, skip=["more"], extra_in=_saturate, extra_out=_extract, omit_default=True)],
    "nm_paths": lambda: [name_mapping(M1, map={"a": ("data", "a"), "b": ("data", "meta", "b")}),
                         name_mapping(Inner, map={"v": ("payload", "v"), "tags": ("payload", "tags")}),
                         name_mapping(Pair, map={"first": ("items", 0), "second": ("items", 1)})],
    "nm_maps": lambda: [name_mapping(M1, map={"a": "m1_a"}), name_mapping(map={"a": "legacy_a"})],
    "unsupported_fix": lambda: [loader(typing.Callable[[int], int], lambda x: x), dumper(typing.Callable[[int], int], lambda x: None)],
}

# the types a recipe variant is about: histories on a retort with that recipe are steered towards them
RECIPE_TYPES: Dict[str, List[str]] = {
    "nm_scoped_upper": ["Outer1", "Outer2", "Inner"], "nm_scoped_node": ["Holder", "Node", "ListNode", "Outer1"],
    "nm_maps": ["M1", "M2", "M3", "ListM1", "ListM2", "UM1M3"], "nm_saturator": ["SatModel", "SatOpt", "SatOpt"],
    "nm_paths": ["M1", "Inner", "ListM1", "Outer1", "PairIntStr", "PairBoolStr"], "chain_node_children": ["Outer1", "Outer2", "Node", "Holder"],
    "scoped_int": ["M1", "M2", "ListM1", "int"], "scoped_node_value": ["Node", "Holder", "Outer1", "ListNode"],
    "scoped_linked_head": ["LinkedInt", "LinkedStr", "LinkedBool"], "enum_by_name": ["Color", "Status", "Shade", "LitColorR", "LitShade"],
    "enum_by_name_all": ["Color", "Status", "Shade", "Perm"],
    "nm_extra_paths": ["WithExtra5", "WithExtra5", "WithExtra"],
    "dt_format": ["DateTime", "ListDateTime", "DictStrDateTime"], "dt_timestamp": ["DateTime", "ListDateTime"],
    "flag_names": ["Perm"], "validator_inner": ["Inner", "Outer1", "Outer2"], "dumper_scoped": ["Node", "Holder", "ListNode"],
    "nm_as_list": ["M1", "ListM1", "M2"], "nm_extra_collect": ["WithExtra", "KwModel", "WithExtra2", "WithExtra3", "WithExtra4", "WithExtra4", "WithExtra5", "WithExtra5"], "nm_extra_forbid": ["Inner", "Outer1"],
    "asis_m2": ["M2", "ListM2", "M1"], "unsupported_fix": ["Unsupported", "ListUnsupported", "CallableT"],
    "nm_snake_only": ["SnakeCase"], "nm_camel": ["SnakeCase", "M1"], "nm_camel_shared": ["SnakeCase", "RA", "RB"],
    "chain_int_last": ["int", "M1", "ListInt", "GInt"], "chain_int_shared": ["int", "M1", "ListInt"],
    "chain_int_first": ["int", "M1"], "dumper_int_str": ["int", "M1", "ListInt", "Node"],
    "nm_omit_default": ["WithDefaults", "Tree", "M1", "LinkedInt", "DefF", "DefB", "DefM1", "DefM2"], "nm_extra_forbid_all": ["M1", "Inner", "Node"],
}

for _n in list(CONV_RECIPES):
    conv_recipe(_n, shared=True)      # built once, at import, in the pristine parent image

DEBUG_TRAILS = {"ALL": DebugTrail.ALL, "FIRST": DebugTrail.FIRST, "DISABLE": DebugTrail.DISABLE}


def required_fields(tname_):
    """Names of the required fields of a dataclass model in the pool, or None."""
    import dataclasses as dc
    tp = TYPES.get(tname_)
    if not (isinstance(tp, type) and dc.is_dataclass(tp)):
        return None
    return {f.name for f in dc.fields(tp) if f.default is dc.MISSING and f.default_factory is dc.MISSING}


def flatten_handle(desc):
    """Documented semantics of replace()/extend(): the flattened construction — options merged,
    extends prepended (latest first). Used by the reference so that it does not trust clone logic."""
    opts = dict(desc.get("opts", {}))
    recipes = [desc.get("recipe", "plain")]
    for step in desc.get("chain", []):
        if step[0] == "replace":
            opts.update(step[1])
        elif step[0] == "extend":
            recipes.insert(0, step[1])
        else:
            raise ValueError(step)
    return {"base": desc["base"], "opts": opts, "recipes": recipes}


def build_flat(flat):
    """Fresh retort straight from constructor arguments."""
    base = flat["base"]
    if base == "Retort":
        recipe = [p for r in flat["recipes"] for p in RECIPES[r]()]
        o = flat["opts"]
        kw = {}
        if "strict_coercion" in o:
            kw["strict_coercion"] = o["strict_coercion"]
        if "debug_trail" in o:
            kw["debug_trail"] = DEBUG_TRAILS[o["debug_trail"]]
        if "hide_traceback" in o:
            kw["hide_traceback"] = o["hide_traceback"]
        return Retort(recipe=recipe, **kw)
    if base == "ConversionRetort":
        recipe = [p for r in flat["recipes"] for p in CONV_RECIPES[r]()]
        return ConversionRetort(recipe=recipe)
    if base == "global_morphing":
        import adaptix._internal.morphing.facade.func as mf
        return mf._global_retort
    if base == "global_conversion":
        import adaptix._internal.conversion.facade.func as cf
        return cf._global_retort
    raise ValueError(base)


def _hijack(x):
    return "HIJACKED"


def build_base(desc):
    """The retort at the root of a handle chain (what the client constructs itself). `recipe_as` is a client
    fault: the recipe is handed over as a one-shot generator, or as a list that the client clears and refills
    with another provider right after construction. A retort must have taken its own copy."""
    how = desc.get("recipe_as", "list")
    if how == "list" or desc["base"] not in ("Retort", "ConversionRetort"):
        return build_flat({"base": desc["base"], "opts": desc.get("opts", {}), "recipes": [desc.get("recipe", "plain")]})
    table = RECIPES if desc["base"] == "Retort" else CONV_RECIPES
    providers = list(table[desc.get("recipe", "plain")]())
    o = desc.get("opts", {})
    kw = {}
    if desc["base"] == "Retort":
        if "strict_coercion" in o:
            kw["strict_coercion"] = o["strict_coercion"]
        if "debug_trail" in o:
            kw["debug_trail"] = DEBUG_TRAILS[o["debug_trail"]]
    cls = Retort if desc["base"] == "Retort" else ConversionRetort
    if how == "generator":
        return cls(recipe=(p for p in providers), **kw)
    lst = list(providers)
    retort = cls(recipe=lst, **kw)
    del lst[:]
    lst.append(loader(int, _hijack) if desc["base"] == "Retort" else coercer(int, int, _hijack))
    return retort


def apply_step(retort, base, step):
    if step[0] == "replace":
        kw = dict(step[1])
        if "debug_trail" in kw:
            kw["debug_trail"] = DEBUG_TRAILS[kw["debug_trail"]]
        return retort.replace(**kw)
    if step[0] == "extend":
        table = CONV_RECIPES if base in ("ConversionRetort", "global_conversion") else RECIPES
        providers = table[step[1]]()
        if len(step) > 2 and step[2] == "generator":
            return retort.extend(recipe=(p for p in providers))
        return retort.extend(recipe=providers)
    raise ValueError(step)
