"""C11 and C20 — history simulation with failed / interrupted requests and a hostile client
(DESIGN 5 and 6). One engine, two profiles."""
import random
import sys

from . import alias, knobs, ops, pools
from .common import canon, digest, is_adaptix_file, short_file
from .sig import outcome as sig_outcome
from . import sig
from .sig import sig_value, strip_payload, tname

mon = sys.monitoring
TOOL = 3

NAME = "histsim"
STABLE_KEY_FIELDS = ("class", "arg_type", "added_required_only")   # key fields that do not depend on minimisation


class SimInterrupt(BaseException):
    """KeyboardInterrupt-shaped: delivered at a function entry, not catchable by `except Exception`."""


class SimRecursionError(RecursionError):
    """RecursionError-shaped: raised at a function entry, an ordinary Exception."""


# ------------------------------------------------------------------------------------------------
# interrupt injection at function entries (PY_START) of adaptix code

class Interrupter:
    def __init__(self):
        self.armed = False
        self.count = 0
        self.k = None
        self.exc = SimInterrupt
        self.fired_at = None
        self.active = False

    def _on_start(self, code, offset):
        if not is_adaptix_file(code.co_filename):
            return mon.DISABLE
        if not self.armed:
            return None
        self.count += 1
        if self.k is not None and self.count == self.k:
            self.armed = False
            self.fired_at = f"{short_file(code.co_filename)}:{code.co_name}"
            raise self.exc(f"simulated interrupt at function entry #{self.k}")
        return None

    def start(self):
        mon.use_tool_id(TOOL, "vsim-hist")
        mon.register_callback(TOOL, mon.events.PY_START, self._on_start)
        self.active = True

    def stop(self):
        if self.active:
            mon.set_events(TOOL, 0)
            mon.register_callback(TOOL, mon.events.PY_START, None)
            mon.free_tool_id(TOOL)
            self.active = False

    def arm(self, k, exc):
        """Count function entries from now on; raise at the k-th (k=None: only count)."""
        from . import sig
        self.count, self.k, self.exc, self.fired_at = 0, k, exc, None
        self.armed = True
        sig.AFTER_CALL_HOOK = self._call_returned
        mon.set_events(TOOL, mon.events.PY_START)
        mon.restart_events()

    def _call_returned(self):
        self.armed = False

    def disarm(self):
        from . import sig
        sig.AFTER_CALL_HOOK = None
        self.armed = False
        mon.set_events(TOOL, 0)
        return self.count, self.fired_at


# ------------------------------------------------------------------------------------------------
# scenario generation

FAMILIES = ["literal", "iterable", "mapping", "union", "scalar", "newtype", "annotated", "model", "generic", "recursive",
            "failing", "payload", "time"]
FAMILY_W = [6, 3, 2, 3, 1, 1, 2, 3, 3, 5, 1, 1, 1]
C11_RECIPES = ["plain", "plain", "plain", "nm_camel", "nm_camel_shared", "nm_as_list", "nm_omit_default", "nm_extra_forbid",
               "nm_extra_collect", "chain_node_children", "chain_int_last", "chain_int_shared", "scoped_int",
               "scoped_node_value", "scoped_linked_head", "enum_by_name", "validator_inner", "dumper_int_str", "dumper_scoped",
               "asis_m2", "unsupported_fix", "nm_snake_only", "chain_int_first", "nm_extra_forbid_all", "flag_names", "enum_by_name_all", "nm_scoped_upper", "nm_scoped_upper", "nm_scoped_node", "nm_maps", "nm_maps", "nm_saturator", "nm_paths", "dt_format", "dt_timestamp"]
REPLACE_OPTS = [{"strict_coercion": True}, {"strict_coercion": False}, {"debug_trail": "ALL"}, {"debug_trail": "FIRST"},
                {"debug_trail": "DISABLE"}, {"hide_traceback": False}, {"strict_coercion": False, "debug_trail": "FIRST"}]
CONV_CALL_RECIPES = ["link_b_c", "link_a_c", "coerce_int_str", "coerce_int_hash", "link_title", "const_factory", "link_b_cs",
                     "link_a_cs"]
CREATION_OPS = ("load", "dump", "get_loader", "get_dumper", "get_converter", "convert")


def _by_family():
    out = {}
    for t, f in pools.FAMILY.items():
        out.setdefault(f, []).append(t)
    return out


def gen_c11(seed, cfg=None):  # noqa: C901, PLR0912, PLR0915
    rng = random.Random(seed)
    fam = _by_family()
    focus = rng.choices(FAMILIES, weights=FAMILY_W, k=rng.choice([1, 1, 2]))
    focus_types = [t for f in focus for t in fam.get(f, [])]
    all_types = list(pools.TYPES)
    # narrow the focus further so that confusable neighbours really meet
    if len(focus_types) > 8:
        focus_types = rng.sample(focus_types, rng.randint(3, 8))
    if rng.random() < 0.15:
        # a whole history about one group of mutually confusable hints
        focus = ["group"]
        focus_types = [t for t in rng.choice(pools.CONFUSABLE_GROUPS) if t in pools.TYPES]
    handles = [{"base": "Retort", "recipe": rng.choice(C11_RECIPES),
                "opts": {"strict_coercion": rng.random() < 0.65, "debug_trail": rng.choice(["ALL", "ALL", "FIRST", "DISABLE"])}}]
    about = [t for t in pools.RECIPE_TYPES.get(handles[0]["recipe"], []) if t in pools.TYPES]
    r_own = rng.random()
    if r_own < 0.12:
        handles[0]["recipe_as"] = "generator"      # client fault: one-shot iterable as recipe
    elif r_own < 0.22:
        handles[0]["recipe_as"] = "mutated"        # client fault: the recipe list is refilled after construction
    morph = [0]
    conv = []
    if rng.random() < 0.25:
        handles.append({"base": "ConversionRetort",
                        "recipe": rng.choice(["plain", "plain", "link_title", "coerce_int_str", "link_b_cs"])})
        conv.append(len(handles) - 1)
    if rng.random() < 0.12:
        handles.append({"base": "global_morphing", "recipe": "plain"})
        morph.append(len(handles) - 1)
    if rng.random() < 0.06:
        handles.append({"base": "global_conversion", "recipe": "plain"})
        conv.append(len(handles) - 1)
    n_handles = len(handles)
    bases = [h["base"] for h in handles]
    conv_focus = rng.sample(sorted(pools.CONVERTERS), 2)
    rcp_focus = rng.choice(CONV_CALL_RECIPES)
    conv_centric = bool(conv) and rng.random() < 0.5
    if rng.random() < 0.6:
        # a pair whose outcome is decided by the per-call recipe
        conv_focus[0], rcp_focus = rng.choice([("CLink", "link_b_c"), ("CLink", "link_a_c"), ("M1Str", "coerce_int_str"),
                                               ("M1Str", "coerce_int_hash"), ("CTags", "const_factory"),
                                               ("CLinkStr", "link_b_cs"), ("CLinkStr", "link_a_cs"),
                                               ("CLinkStr", "coerce_int_str"), ("CLinkStr", "coerce_int_hash")])
    # inline mode: every per-call recipe is written out afresh at the call site (new provider objects each time, dead
    # right after the call) and alternates between the recipes that decide this pair's result
    inline_alts = {"CLink": ["link_b_c", "link_a_c"], "M1Str": ["coerce_int_str", "coerce_int_hash"],
                   "CLinkStr": ["link_b_cs", "link_a_cs", "coerce_int_str", "coerce_int_hash"]}
    inline_mode = conv_centric and conv_focus[0] in inline_alts and rng.random() < 0.4
    n_ops = rng.randint(2, 14) if not inline_mode else rng.randint(5, 14)
    prog = []
    callables = []   # (kind, type or conv)

    used = []

    def pick_type():
        if used and rng.random() < 0.35:
            partners = [p for p in pools.PARTNERS.get(rng.choice(used), []) if p in pools.TYPES]
            if partners:
                return rng.choice(partners)    # a confusable neighbour of a type this history has already used
        if about and rng.random() < 0.45:
            return rng.choice(about)              # a type the retort's recipe is about
        return rng.choice(focus_types) if rng.random() < 0.85 else rng.choice(all_types)

    for _ in range(n_ops):
        r = rng.random()
        if conv and r < (0.65 if conv_centric else 0.35):
            h = rng.choice(conv)
            own_conv = [x for x in conv if bases[x] == "ConversionRetort"]
            if conv_centric and own_conv and rng.random() < 0.18:
                # derive from a conversion retort that may already have served per-call recipes
                h = rng.choice(own_conv)
                if rng.random() < 0.75:
                    op = {"op": "extend", "h": h, "recipe": rng.choice(["link_title", "coerce_int_str", "coerce_int_hash",
                                                                        "link_a_c", "link_b_cs", "link_a_cs"])}
                else:
                    op = {"op": "replace", "h": h, "opts": {"hide_traceback": rng.random() < 0.5}}
                bases.append("ConversionRetort")
                conv.append(n_handles)
                n_handles += 1
                prog.append(op)
                continue
            c = conv_focus[0] if conv_centric and rng.random() < 0.8 else (
                rng.choice(conv_focus) if rng.random() < 0.7 else rng.choice(sorted(pools.CONVERTERS)))
            if rng.random() < 0.5:
                op = {"op": "get_converter", "h": h, "conv": c}
                callables.append(("get_converter", c))
            else:
                op = {"op": "convert", "h": h, "conv": c, "o": rng.choice(pools.CONVERTERS[c][2])}
            if inline_mode and c in inline_alts:
                op["rcp"] = rng.choice(inline_alts[c])
                if rng.random() < 0.3:
                    prog.append({"op": "gc"})
            elif rng.random() < 0.5:
                # per-call recipe: get_converter(..., recipe=[...]); mostly this history's favourite one, given as
                # the same provider objects on every call (a module-level recipe list)
                if rng.random() < 0.7:
                    op["rcp"], op["rcp_shared"] = rcp_focus, True
                else:
                    op["rcp"] = rng.choice(CONV_CALL_RECIPES)
                    if rng.random() < 0.5:
                        op["rcp_shared"] = True
        elif r < 0.10 and callables:
            j = rng.randrange(len(callables))
            k, ct = callables[j]
            if k == "get_loader":
                op = {"op": "call", "c": j, "d": rng.choice(pools.battery(ct))}
            elif k == "get_dumper":
                op = {"op": "call", "c": j, "o": rng.choice(pools.dump_battery(ct))}
            else:
                op = {"op": "call", "c": j, "o": rng.choice(pools.CONVERTERS[ct][2])}
        elif r < 0.16 and conv and rng.random() < 0.4 and any(bases[x] == "ConversionRetort" for x in conv):
            h = rng.choice([x for x in conv if bases[x] == "ConversionRetort"])
            op = {"op": "replace", "h": h, "opts": {"hide_traceback": rng.random() < 0.5}}
            bases.append("ConversionRetort")
            conv.append(n_handles)
            n_handles += 1
        elif r < 0.16:
            h = rng.choice(morph)
            if bases[h] == "Retort":
                op = {"op": "replace", "h": h, "opts": rng.choice(REPLACE_OPTS)}
                bases.append("Retort")
                morph.append(n_handles)
                n_handles += 1
            else:
                op = {"op": "gc"}
        elif r < 0.22:
            # the module-level retorts are private objects: a client cannot derive from them
            own_conv = [x for x in conv if bases[x] == "ConversionRetort"]
            if own_conv and rng.random() < 0.4:
                h = rng.choice(own_conv)
                op = {"op": "extend", "h": h, "recipe": rng.choice(["link_title", "coerce_int_str", "coerce_int_hash", "link_a_c",
                                                                    "link_b_cs", "link_a_cs"])}
                bases.append("ConversionRetort")
                conv.append(n_handles)
            else:
                h = rng.choice([x for x in morph if bases[x] == "Retort"])
                op = {"op": "extend", "h": h, "recipe": rng.choice(C11_RECIPES[3:])}
                bases.append(bases[h])
                morph.append(n_handles)
            if rng.random() < 0.2:
                op["as"] = "generator"
            n_handles += 1
        elif r < 0.24:
            op = {"op": "bind_late"}
        elif r < 0.26:
            op = {"op": "gc"}
        elif r < 0.28:
            # scale: the retort serves tens to a thousand other types in between (its caches and the normalisation
            # cache turn over completely)
            hh = [x for x in morph if bases[x] == "Retort"] or morph
            op = {"op": "bulk", "h": rng.choice(hh), "n": rng.choice([40, 150, 400, 1100]), "start": rng.choice([0, 0, 2000, 7000])}
        else:
            h = rng.choice(morph)
            t = pick_type()
            used.append(t)
            rr = rng.random()
            if rr < 0.50:
                op = {"op": "load", "h": h, "t": t, "d": rng.choice(pools.battery(t))}
            elif rr < 0.62:
                op = {"op": "get_loader", "h": h, "t": t}
                callables.append(("get_loader", t))
            elif rr < 0.92:
                op = {"op": "dump", "h": h, "t": t, "o": rng.choice(pools.dump_battery(t))}
                if rng.random() < 0.12:
                    op["infer"] = True        # dump(obj) with the type inferred from the object
            else:
                op = {"op": "get_dumper", "h": h, "t": t}
                callables.append(("get_dumper", t))
        prog.append(op)
    faults = []
    faulty = bool(seed & 1)   # fault-free and fault-injecting configurations are separate sub-batches
    if faulty:
        cands = [i for i, op in enumerate(prog[:-1]) if op["op"] in CREATION_OPS]
        rng.shuffle(cands)
        for i in sorted(cands[:rng.choice([1, 1, 2])]):
            fl = {"kind": "interrupt", "op": i, "frac": rng.random(), "exc": "base" if rng.random() < 0.7 else "recursion"}
            if prog[i]["op"] in ("load", "dump") and rng.random() < 0.35:
                fl = {"kind": "interrupt", "op": i, "when": "call", "k": rng.randint(1, 25), "exc": fl["exc"]}
            faults.append(fl)
    return {"engine": "histsim", "profile": "c11", "seed": seed, "handles": handles, "ops": prog, "faults": faults,
            "norm_cache": rng.choice([1, 2, 8, 128, 128]), "focus": focus}


C20_TYPES = ["ListInt", "ListListInt", "DictStrListInt", "DDictStrListInt", "SetInt", "OptListInt", "UListIntStr", "ListAny",
             "Any", "object", "DictStrAny", "bytearray", "BytesIO", "IOBytes", "NT", "ListNT", "Inner", "WithAny", "WithExtra",
             "WithDefaults", "KwModel", "StreamHolder", "TD", "AT", "M1", "Node", "Holder", "Outer1", "GListInt", "MapStrInt",
             "MapStrListInt", "MMapStrListInt", "SeqListInt", "IterListInt", "TupListDict", "TupListEll", "DequeInt", "DictStrM1",
             "DictStrNode", "ListM1", "Tree", "LinkedInt", "SetTupInt", "PM", "SnakeCase", "DDictStrInt", "TupIntEll", "Perm", "M2",
             "ULM1LM2", "UDM1DM2", "SatModel", "SatOpt", "SatOpt", "SnakeCase", "WithExtra2", "WithExtra3", "WithExtra4", "WithExtra4", "TNode", "TupIntStr",
             "TupLit01", "LitBig", "LitBig", "Pixel", "Pixel", "ListPixel", "ListShade", "DictStrLitBig", "OptLitBig", "ListPerm",
             "Color", "Status", "Shade", "Perm", "DeepDefaults", "DeepDefaults", "ListDeepDefaults", "NT",
             "WithExtra5", "WithExtra5", "ListDateTime", "DictStrDateTime", "DefM1", "DefM2", "ListLitM1", "UUID"]
C20_RECIPES = ["nm_extra_paths", "nm_extra_paths", "dt_format", "plain", "plain", "nm_extra_collect", "nm_extra_collect", "nm_omit_default", "nm_as_list", "nm_camel",
               "nm_extra_forbid", "validator_inner", "chain_node_children", "flag_names", "flag_names", "nm_saturator", "nm_saturator", "nm_paths", "nm_paths"]
C20_CONV = ["MapAbs", "MapAbs", "CDq", "CDq", "OptListInner", "OptListInner", "OptDictInner", "CLinkStr", "ImplExtra", "ImplTags", "ImplTags","Outer", "OuterSame", "Inner", "InnerSame", "ListInner", "GIntGInt", "OptInner", "DictInner", "InnerTags", "M1M2",
            "CLink", "M1Str", "CTags", "CTags", "Ann", "Ann", "AnnList", "AnnDict"]


def gen_c20(seed, cfg=None):  # noqa: C901, PLR0912
    rng = random.Random(seed)
    types = [t for t in C20_TYPES if t in pools.TYPES]
    focus = rng.sample(types, rng.randint(1, 4))
    handles = [{"base": "Retort", "recipe": rng.choice(C20_RECIPES),
                "opts": {"strict_coercion": rng.random() < 0.6, "debug_trail": rng.choice(["ALL", "ALL", "FIRST", "DISABLE"])}},
               {"base": "ConversionRetort", "recipe": "plain"}]
    prog = []
    call_ops = []   # indices of ops that keep a result / argument
    callables = []
    for _ in range(rng.randint(3, 12)):
        r = rng.random()
        if r < 0.13 and call_ops:
            op = {"op": "scramble_result", "r": rng.choice(call_ops), "hard": rng.random() < 0.4}
        elif r < 0.22 and call_ops:
            op = {"op": "scramble_arg", "r": rng.choice(call_ops), "hard": rng.random() < 0.4}
        elif r < 0.28 and call_ops:
            # the client overwrites whatever it can reach from the exceptions earlier calls raised
            op = {"op": "scramble_exc"}
        elif r < 0.36 and call_ops:
            # the same call once more (the property quantifies over pairs of successive calls with equal arguments)
            op = dict(prog[rng.choice(call_ops)])
        elif r < 0.46:
            c = rng.choice(C20_CONV)
            if rng.random() < 0.3:
                op = {"op": "get_converter", "h": 1, "conv": c}
                callables.append(("get_converter", c))
            else:
                op = {"op": "convert", "h": 1, "conv": c, "o": rng.choice(pools.CONVERTERS[c][2])}
            if c in ("CLink", "M1Str", "CTags", "CLinkStr", "CDq") and rng.random() < 0.8:
                op["rcp"] = rng.choice({"CLink": ["link_b_c", "link_a_c"], "M1Str": ["coerce_int_str", "coerce_int_hash"],
                                        "CTags": ["const_factory"], "CLinkStr": ["link_b_cs", "coerce_int_str"],
                                        "CDq": ["const_factory_dq"]}[c])
                if rng.random() < 0.5:
                    op["rcp_shared"] = True
        elif r < 0.53 and callables:
            j = rng.randrange(len(callables))
            k, ct = callables[j]
            if k == "get_loader":
                op = {"op": "call", "c": j, "d": rng.choice(pools.battery(ct)[:5])}
            elif k == "get_dumper":
                op = {"op": "call", "c": j, "o": rng.choice(pools.dump_battery(ct))}
            else:
                op = {"op": "call", "c": j, "o": rng.choice(pools.CONVERTERS[ct][2])}
        else:
            t = rng.choice(focus) if rng.random() < 0.8 else rng.choice(types)
            rr = rng.random()
            if rr < 0.50:
                # valid data first in the battery; later entries are the confusing atoms -> failing loads
                b = pools.battery(t)
                op = {"op": "load", "h": 0, "t": t, "d": rng.choice(b[:4]) if rng.random() < 0.8 else rng.choice(b)}
            elif rr < 0.58:
                op = {"op": "get_loader", "h": 0, "t": t}
                callables.append(("get_loader", t))
            elif rr < 0.94:
                op = {"op": "dump", "h": 0, "t": t, "o": rng.choice(pools.dump_battery(t))}
            else:
                op = {"op": "get_dumper", "h": 0, "t": t}
                callables.append(("get_dumper", t))
        if op["op"] in ("load", "dump", "convert", "call"):
            call_ops.append(len(prog))
        prog.append(op)
    faults = []
    if seed & 1:
        cands = [i for i, op in enumerate(prog) if op["op"] in ("load", "dump", "convert", "call")]
        rng.shuffle(cands)
        for i in sorted(cands[:1]):
            fl = {"kind": "interrupt", "op": i, "frac": rng.random(), "exc": rng.choice(["base", "recursion"])}
            if prog[i]["op"] in ("load", "dump") and rng.random() < 0.6:
                fl = {"kind": "interrupt", "op": i, "when": "call", "k": rng.randint(1, 25), "exc": fl["exc"]}
            faults.append(fl)
    return {"engine": "histsim", "profile": "c20", "seed": seed, "handles": handles, "ops": prog, "faults": faults,
            "norm_cache": 128, "focus": focus}


def gen(seed, cfg=None):
    if (cfg or {}).get("profile") == "c20":
        return gen_c20(seed, cfg)
    return gen_c11(seed, cfg)


# ------------------------------------------------------------------------------------------------
# references

def _plain_ops(scn):
    """Ops as the shared vocabulary sees them (client-side scramble ops carry no facade call)."""
    return [op if not op["op"].startswith("scramble") else {"op": "gc"} for op in scn["ops"]]


def _entries_desc(d):
    return {"op": "entries", "of": d}


def refs_needed(scn):
    descs = ops.static_ref_descs(scn["handles"], _plain_ops(scn))
    out = [d for d in descs if d is not None]
    for f in scn.get("faults", []):
        if "frac" in f and f.get("when") != "call" and descs[f["op"]] is not None:
            out.append(_entries_desc(descs[f["op"]]))
    return out


def compute_ref(desc):
    knobs.set_norm_cache(128)   # the reference starts with an empty normalisation cache as well
    if desc["op"] == "entries":
        # number of adaptix function entries of this op on a fresh retort (upper bound for crash points)
        d = desc["of"]
        if d.get("late"):
            pools.bind_late()
        it = Interrupter()
        it.start()
        try:
            retort = pools.build_flat(d["flat"])
            it.arm(None, SimInterrupt)
            _do(retort, d)
            n, _ = it.disarm()
        finally:
            it.stop()
        return n
    return ops.compute_ref(desc)


def _do(retort, d):
    from .sig import outcome
    kind = d["op"]
    if kind == "load":
        return outcome(retort.load, pools.datum(d["d"]), pools.TYPES[d["t"]])
    if kind == "dump":
        if d.get("infer"):
            return outcome(retort.dump, pools.obj(d["o"]))
        return outcome(retort.dump, pools.obj(d["o"]), pools.TYPES[d["t"]])
    if kind == "get_loader":
        return outcome(retort.get_loader, pools.TYPES[d["t"]])
    if kind == "get_dumper":
        return outcome(retort.get_dumper, pools.TYPES[d["t"]])
    if kind == "get_converter":
        src, dst, _ = pools.CONVERTERS[d["conv"]]
        return outcome(ops._get_converter, retort, d["conv"], d.get("rcp"), d.get("rcp_shared", False))
    if kind == "convert":
        return outcome(ops._convert, retort, d["conv"], pools.obj(d["o"]), d.get("rcp"), d.get("rcp_shared", False))
    if kind == "convert_call":
        src, dst, _ = pools.CONVERTERS[d["conv"]]
        out, fn = outcome(ops._get_converter, retort, d["conv"], d.get("rcp"), d.get("rcp_shared", False))
        return outcome(fn, pools.obj(d["o"])) if out[0] == "ok" else (out, None)
    raise ValueError(d)


# ------------------------------------------------------------------------------------------------
# execution

def classify(expected, observed):
    if expected[0] in ("ok", "callable") and observed[0] == "exc":
        return "unexpected-exception"
    if expected[0] == "exc" and observed[0] in ("ok", "callable"):
        return "unexpected-success"
    if expected[0] == "exc" and observed[0] == "exc":
        return "wrong-exception"
    return "wrong-result"


def execute(scn, refs):  # noqa: C901, PLR0912, PLR0915
    c20 = scn.get("profile") == "c20"
    cache = knobs.set_norm_cache(scn.get("norm_cache", 128))
    world = ops.World(scn["handles"])
    plain = _plain_ops(scn)
    descs = ops.static_ref_descs(scn["handles"], plain)
    faults = {f["op"]: f for f in scn.get("faults", [])}
    it = Interrupter()
    if faults:
        it.start()
    violations = []
    fired = []
    not_fired = 0
    kept = {}      # op index -> {"res", "arg", "res_snap", "arg_snap", "scr_res", "scr_arg", "exclude"}
    n_scrambles = 0
    n_exc_scrambles = 0
    stats = {"scrambled_exc_containers": 0, "ops": len(plain), "interrupts_fired": 0, "interrupts_not_fired": 0, "failed_requests": 0,
             "scrambled_containers": 0, "compared": 0, "alias_checks": 0, "snapshots_rechecked": 0,
             "call_cache_sizes": []}
    recipes_of = [_recipes_of(world, h) for h in range(len(world.handles))]
    default_ids = alias.declared_default_ids() if c20 else {}                       # excused from the aliasing oracle
    own_default_ids = alias.declared_default_ids(everything=True) if c20 else {}    # never scrambled by the client

    def recheck(i_now):
        for j, kp in sorted(kept.items()):
            if not kp["scr_res"] and kp["res_snap"] is not None:
                stats["snapshots_rechecked"] += 1
                if sig_value(kp["res"]) != kp["res_snap"]:
                    violations.append({"class": "result-changed-later", "op_index": j, "op": scn["ops"][j], "at_op": i_now,
                                       "expected": kp["res_snap"], "observed": sig_value(kp["res"])})
                    kp["scr_res"] = True
            if not kp["scr_arg"]:
                stats["snapshots_rechecked"] += 1
                if sig_value(kp["arg"]) != kp["arg_snap"]:
                    violations.append({"class": "argument-changed-later", "op_index": j, "op": scn["ops"][j], "at_op": i_now,
                                       "expected": kp["arg_snap"], "observed": sig_value(kp["arg"])})
                    kp["scr_arg"] = True

    try:
        for i, op in enumerate(scn["ops"]):
            kind = op["op"]
            if kind == "scramble_exc":
                for j, kp in sorted(kept.items()):
                    e = kp.pop("exc", None)
                    if e is None:
                        continue
                    # containers of the caller's own argument are the caller's (input_value): not touched here
                    excl = {**alias.reach(kp["arg"]), **kp["exclude"]}
                    for root in alias.exc_payload_roots(e):
                        m = alias.scramble(root, excl, hard=True)
                        stats["scrambled_exc_containers"] += m
                        n_exc_scrambles += 1 if m else 0
                recheck(i)
                continue
            if kind.startswith("scramble"):
                kp = kept.get(op["r"])
                if kp is None:
                    continue
                if kind == "scramble_result" and kp["res"] is not None:
                    n = alias.scramble(kp["res"], kp["exclude"], hard=op.get("hard", False))
                    kp["scr_res"] = True
                else:
                    n = alias.scramble(kp["arg"], kp["exclude"], hard=op.get("hard", False))
                    kp["scr_arg"] = True
                stats["scrambled_containers"] += n
                n_scrambles += 1
                recheck(i)
                continue
            f = faults.get(i)
            arg_snap = None
            late = f is not None and f.get("when") == "call" and kind in ("load", "dump") and not plain[i].get("infer")
            if late:
                # the fault belongs to the *call*: obtain the loader / dumper first, unarmed, then interrupt the call at
                # one of its first function entries (element loaders, generated code, validators)
                k = f["k"]
                h = world.handles[plain[i]["h"]]
                getter = h.get_loader if kind == "load" else h.get_dumper
                g_out, fn = sig_outcome(getter, pools.TYPES[plain[i]["t"]])
                arg = pools.datum(plain[i]["d"]) if kind == "load" else pools.obj(plain[i]["o"])
                arg_snap = sig_value(arg)
                if g_out[0] == "ok":
                    it.arm(k, SimInterrupt if f.get("exc", "base") == "base" else SimRecursionError)
                    out, res = sig_outcome(fn, arg)
                else:
                    out, res = g_out, None
            elif f is not None and descs[i] is not None:
                n_entries = refs[canon(_entries_desc(descs[i]))] if "frac" in f else None
                k = f["k"] if "k" in f else 1 + int(f["frac"] * max(0, n_entries - 1)) if n_entries else 1
                it.arm(k, SimInterrupt if f.get("exc", "base") == "base" else SimRecursionError)
            pre_hook = None
            if c20 and kind in ("load", "dump", "convert", "call"):
                pre_hook = True
            if late:
                pass
            elif pre_hook:
                out, res, arg, arg_snap = _run_with_snapshot(world, plain[i])
            else:
                out, res, arg = world.run(plain[i])
            fired_here = None
            if f is not None and descs[i] is not None:
                _, fired_here = it.disarm()
                if fired_here:
                    fired.append({"op": i, "k": k, "at": fired_here, "exc": f.get("exc", "base")})
                    stats["interrupts_fired"] += 1
                else:
                    stats["interrupts_not_fired"] += 1
                    not_fired += 1
            d = descs[i]
            if d is not None and out != ["skipped"] and not fired_here:
                exp = refs[canon(d)]
                stats["compared"] += 1
                if exp[0] == "exc":
                    stats["failed_requests"] += 1
                if (strip_payload(out) != strip_payload(exp)) if n_exc_scrambles else (out != exp):
                    violations.append({"class": classify(exp, out), "op_index": i, "op": op, "expected": exp, "observed": out,
                                       "after_interrupt": bool(fired), "after_scramble": n_scrambles > 0,
                                       "after_exc_scramble": n_exc_scrambles > 0})
            elif kind == "bulk" and out[2]:
                violations.append({"class": "unexpected-exception", "op_index": i, "op": op, "expected": ["bulk", op["n"], []],
                                   "observed": out})
            elif kind in ("replace", "extend") and out[0] != "handle":
                violations.append({"class": "unexpected-exception", "op_index": i, "op": op, "expected": ["handle"],
                                   "observed": out})
            if c20 and arg is not None:
                # oracle 1: the argument is not mutated by the call (successful or not)
                after = sig_value(arg)
                stats["alias_checks"] += 1
                if after != arg_snap:
                    v = {"class": "argument-mutated", "op_index": i, "op": op, "expected": arg_snap,
                         "observed": after, "interrupted": bool(fired_here), "arg_type": tname(type(arg))}
                    if isinstance(arg, dict) and "d" in op:
                        # which keys did the call add to the caller's mapping, and are they all required fields?
                        added = sorted(str(k) for k in set(arg) - set(pools.DATA[op["d"]]))
                        tn = op.get("t") or (_call_as_op(world, op).get("t") if kind == "call" else None)
                        req = pools.required_fields(tn) if tn else None
                        v["added_keys"] = added
                        # external keys may be renamed by a name mapping, so the test is by count when names differ:
                        # a lookup of a missing *required* key inserts it (finding F2); more insertions than the
                        # model has required fields means optional lookups insert keys too
                        v["added_required_only"] = bool(added) and req is not None and (
                            set(added) <= req or len(added) <= len(req))
                    violations.append(v)
                allowed = alias.allowed_shared(op if kind != "call" else _call_as_op(world, op), arg,
                                               recipes_of[plain[i].get("h", 0)] if kind != "call" else
                                               _call_recipes(world, op, recipes_of))
                exclude = {**allowed, **default_ids}
                no_scramble = {**allowed, **own_default_ids}
                res_ok = out[0] == "ok"
                if res_ok:
                    # oracle 4: no mutable container shared with the argument (outside declared as-is positions) ...
                    rres = alias.reach(res)
                    rarg = alias.reach(arg)
                    shared = [x for j, x in rres.items() if j in rarg and j not in exclude]
                    if shared:
                        violations.append({"class": "result-aliases-argument", "op_index": i, "op": op,
                                           "expected": "no shared mutable container",
                                           "observed": [sig_value(x) for x in shared[:3]]})
                    # ... nor with any earlier result or argument of a separate call
                    for j, kp in sorted(kept.items()):
                        if kp["res"] is None:
                            continue
                        other = alias.reach(kp["res"])
                        sh = [x for q, x in rres.items() if q in other and q not in default_ids]
                        if sh:
                            violations.append({"class": "results-share-container", "op_index": i, "other_op": j, "op": op,
                                               "expected": "no shared mutable container",
                                               "observed": [sig_value(x) for x in sh[:3]]})
                            break
                kept[i] = {"res": res if res_ok else None, "arg": arg, "res_snap": sig_value(res) if res_ok else None,
                           "arg_snap": after, "scr_res": False, "scr_arg": False, "exclude": no_scramble,
                           "exc": sig.LAST_EXC[0] if out[0] == "exc" and not fired_here else None}
            if len(violations) > 6:
                break
        if c20:
            recheck(len(scn["ops"]))
    finally:
        it.stop()
    for h in world.handles:
        cc = getattr(h, "_call_cache", None)
        if isinstance(cc, dict):
            stats["call_cache_sizes"].append(len(cc))
    if cache is not None:
        ci = cache.cache_info()
        stats["norm_cache"] = {"hits": ci.hits, "misses": ci.misses, "maxsize": ci.maxsize,
                               "evicted": max(0, ci.misses - ci.currsize)}
    return {"violations": violations, "stats": stats, "fired": fired}


def _recipes_of(world, h):
    d = world.hdesc[h]
    return [d.get("recipe", "plain"), *[s[1] for s in d.get("chain", []) if s[0] == "extend"]]


def _call_as_op(world, op):
    tmpl = world.callables[op["c"]][1] or {}
    o = {"op": "load" if "d" in op else ("convert" if "conv" in tmpl else "dump")}
    if "t" in tmpl:
        o["t"] = tmpl["t"]
    if "conv" in tmpl:
        o["conv"] = tmpl["conv"]
    return o


def _call_recipes(world, op, recipes_of):
    tmpl = world.callables[op["c"]][1] or {}
    return list(tmpl.get("flat", {}).get("recipes", []))


def _run_with_snapshot(world, op):
    """Same as world.run but with a deep snapshot of the argument taken before the call."""
    snap = {}
    orig_datum, orig_obj = pools.datum, pools.obj

    def datum(n):
        v = orig_datum(n)
        snap["s"] = sig_value(v)
        return v

    def obj(n):
        v = orig_obj(n)
        snap["s"] = sig_value(v)
        return v

    pools.datum, pools.obj = datum, obj
    try:
        out, res, arg = world.run(op)
    finally:
        pools.datum, pools.obj = orig_datum, orig_obj
    return out, res, arg, snap.get("s")


# ------------------------------------------------------------------------------------------------
# minimisation, keys, coverage

def to_replay(scn, result):
    """Make the fault trace explicit: fractional crash points become absolute entry numbers."""
    s = dict(scn)
    fired = {f["op"]: f for f in result.get("fired", [])}
    nf = []
    for f in scn.get("faults", []):
        if f["op"] in fired:
            nf.append({"kind": "interrupt", "op": f["op"], "k": fired[f["op"]]["k"], "exc": f.get("exc", "base"),
                       "site": fired[f["op"]]["at"], **({"when": "call"} if f.get("when") == "call" else {})})
    s["faults"] = nf
    return s


def drop_op(scn, i):  # noqa: C901, PLR0912
    """Scenario without op i, or None if a later op depends on it. Handle / callable / result
    references are renumbered."""
    prog = scn["ops"]
    op = prog[i]
    n_base = len(scn["handles"])
    h_created = None
    c_created = None
    hc = n_base
    cc = 0
    for j, o in enumerate(prog):
        if j == i:
            if o["op"] in ("replace", "extend"):
                h_created = hc
            if o["op"].startswith("get_"):
                c_created = cc
            break
        if o["op"] in ("replace", "extend"):
            hc += 1
        if o["op"].startswith("get_"):
            cc += 1
    new = []
    for j, o in enumerate(prog):
        if j == i:
            continue
        o = dict(o)
        if j > i:
            if h_created is not None and "h" in o:
                if o["h"] == h_created:
                    return None
                if o["h"] > h_created:
                    o["h"] -= 1
            if c_created is not None and "c" in o:
                if o["c"] == c_created:
                    return None
                if o["c"] > c_created:
                    o["c"] -= 1
            if "r" in o:
                if o["r"] == i:
                    return None
                if o["r"] > i:
                    o["r"] -= 1
        new.append(o)
    if op["op"] == "bind_late" and False:
        return None
    s = dict(scn)
    s["ops"] = new
    nf = []
    for f in scn.get("faults", []):
        if f["op"] == i:
            continue
        nf.append({**f, "op": f["op"] - 1} if f["op"] > i else dict(f))
    s["faults"] = nf
    return s


def candidates(scn):  # noqa: C901
    n = len(scn["ops"])
    # chunks first (ddmin flavour), then single ops from the end
    for size in (max(1, n // 2), max(1, n // 4)):
        if size <= 1:
            continue
        for start in range(0, n, size):
            s = scn
            ok = True
            for i in reversed(range(start, min(n, start + size))):
                s = drop_op(s, i)
                if s is None:
                    ok = False
                    break
            if ok and s["ops"]:
                yield s
    for i in reversed(range(n)):
        s = drop_op(scn, i)
        if s is not None and s["ops"]:
            yield s
    for fi in range(len(scn.get("faults", []))):
        s = dict(scn)
        s["faults"] = [f for j, f in enumerate(scn["faults"]) if j != fi]
        yield s
    for hi, h in enumerate(scn["handles"]):
        if h.get("recipe", "plain") != "plain":
            s = dict(scn)
            s["handles"] = [{**x, "recipe": "plain"} if j == hi else x for j, x in enumerate(scn["handles"])]
            yield s
        o = h.get("opts")
        if o and o != {"strict_coercion": True, "debug_trail": "ALL"}:
            for simpler in ({"strict_coercion": True, "debug_trail": "ALL"}, {**o, "debug_trail": "ALL"},
                            {**o, "strict_coercion": True}):
                if simpler != o:
                    s = dict(scn)
                    s["handles"] = [{**x, "opts": simpler} if j == hi else x for j, x in enumerate(scn["handles"])]
                    yield s
    if scn.get("norm_cache", 128) != 128:
        s = dict(scn)
        s["norm_cache"] = 128
        yield s
    # unused trailing handles
    used = {o["h"] for o in scn["ops"] if "h" in o}
    if len(scn["handles"]) > 1 and (len(scn["handles"]) - 1) not in used and not any(
            o["op"] in ("replace", "extend") for o in scn["ops"]):
        s = dict(scn)
        s["handles"] = scn["handles"][:-1]
        yield s
    # move crash points earlier
    for fi, f in enumerate(scn.get("faults", [])):
        if "k" in f and f["k"] > 1:
            for nk in (f["k"] // 2, f["k"] - 1):
                if nk >= 1:
                    s = dict(scn)
                    s["faults"] = [{**g, "k": nk} if j == fi else g for j, g in enumerate(scn["faults"])]
                    yield s


def violation_class(result):
    v = result["violations"]
    return v[0]["class"] if v else None


def _types_of(scn):
    return sorted({o.get("t") or o.get("conv") for o in scn["ops"] if o.get("t") or o.get("conv")})


def prelim_key(scn, result):
    v = result["violations"][0]
    op = v.get("op") or {}
    return {"class": v["class"], "op": op.get("op"), "type": op.get("t") or op.get("conv"),
            "fault": bool(result.get("fired")), "arg_type": v.get("arg_type")}


def finding_key(scn, result, v=None):
    v = v or result["violations"][0]
    op = v.get("op") or {}
    return {"class": v["class"], "op": op.get("op"), "type": op.get("t") or op.get("conv"), "types": _types_of(scn),
            "arg_type": v.get("arg_type"), "added_required_only": v.get("added_required_only"), "op_kinds": [o["op"] for o in scn["ops"]], "faults": [f.get("exc", "base") for f in scn.get("faults", [])],
            "recipes": sorted({h.get("recipe", "plain") for h in scn["handles"]} | {
                o["recipe"] for o in scn["ops"] if o["op"] == "extend"})}


def summarize(scn, res):
    st = res.get("stats", {})
    prior_fams = set()
    nontrivial = False
    seen_types = set()
    for i, o in enumerate(scn["ops"]):
        t = o.get("t")
        if t:
            f = pools.FAMILY.get(t)
            if (f in prior_fams and t not in seen_types) or (t in seen_types):
                nontrivial = True
            prior_fams.add(f)
            seen_types.add(t)
        if o["op"].startswith("scramble") and i < len(scn["ops"]) - 1:
            nontrivial = True
    if res.get("fired"):
        nontrivial = True
    return {"hist": digest([scn["handles"], scn["ops"], scn.get("faults"), scn.get("norm_cache")]), "nontrivial": nontrivial,
            "profile": scn.get("profile"), "ops": len(scn["ops"]), "stats": st, "sweep": bool(scn.get("sweep")),
            "fired_sites": [f["at"] for f in res.get("fired", [])],
            "kinds": [o["op"] for o in scn["ops"]]}


def coverage(oks, tier):
    from collections import Counter
    distinct = {r["summary"]["hist"] for r in oks}
    nontrivial = {r["summary"]["hist"] for r in oks if r["summary"]["nontrivial"]}
    agg = Counter()
    kinds = Counter()
    sites = Counter()
    evicted = 0
    for r in oks:
        st = r["summary"]["stats"]
        for k in ("ops", "interrupts_fired", "interrupts_not_fired", "failed_requests", "scrambled_containers", "compared",
                  "scrambled_exc_containers", "alias_checks", "snapshots_rechecked"):
            agg[k] += st.get(k, 0)
        kinds.update(r["summary"]["kinds"])
        sites.update(r["summary"]["fired_sites"])
        evicted += (st.get("norm_cache") or {}).get("evicted", 0)
    samples = []
    for r in oks:
        if "scenario" in r and len(samples) < 3:
            samples.append({"seed": r["seed"], "scenario": r["scenario"], "fired": r["result"].get("fired"),
                            "violations": r["violations"][:1]})
    profile = oks[0]["summary"]["profile"] if oks else None
    return {
        "evaluations": len(oks),
        "distinct_nontrivial": len(nontrivial),
        "distinct_histories": len(distinct),
        "rule": ("one evaluation = one seeded history of facade calls (and faults / client actions) on long-lived retorts, "
                 "every compared op checked against the same call on a fresh retort in a pristine forked process image; "
                 "distinct = hash of (handle construction, op list, fault plan, cache knob); non-trivial = some op's type was "
                 "requested earlier in the same history or shares a confusable family with an earlier op, an interrupt "
                 "fired, or a client scramble preceded a later call"),
        "samples": samples,
        "simulated_time": "none: adaptix reads no clock; logical steps (ops, function entries) are reported instead",
        "logical_steps": agg["ops"],
        "faults_fired": {
            "interrupt_at_function_entry": agg["interrupts_fired"],
            "interrupt_planned_but_request_already_cached": agg["interrupts_not_fired"],
            "failed_requests_(natural)": agg["failed_requests"],
            "client_scrambled_containers": agg["scrambled_containers"],
            "client_scrambled_exception_payload_containers": agg["scrambled_exc_containers"],
            "normalisation_cache_evictions": evicted,
        },
        "ops_compared_with_reference": agg["compared"],
        "argument_snapshots_compared": agg["alias_checks"],
        "kept_snapshots_rechecked": agg["snapshots_rechecked"],
        "crash_point_sweep_runs": sum(1 for r in oks if r["summary"].get("sweep")),
        "op_kinds": dict(kinds),
        "interrupt_sites_top": dict(sites.most_common(12)),
        "distinct_interrupt_sites": len(sites),
        "profile": profile,
        "components": {"real": ["all of adaptix", "dict / lru_cache / typing caches"],
                       "stubbed": ["the client (seeded history, scrambles)", "interrupt delivery (raised from a PY_START "
                                   "monitoring callback)", "size of the normalisation cache (knob)"]},
    }


ASSUMPTIONS = [
    "the reference for every call is the same call on a freshly constructed retort (construction flattened to constructor "
    "arguments per the documented replace/extend semantics) in a process image forked from a pristine warmed parent",
    "interrupts are injected only at function entries of adaptix / adaptix-generated code, where CPython raises "
    "RecursionError and services pending signals; an interrupted call itself is not compared, everything after it is",
    "free-text error messages and generated file names are not compared; error-group children are a multiset",
    "as-is positions (Any, object, values of collected extras, as-is conversion fall-through) and a model's own declared "
    "default objects are excluded from the aliasing oracle per pool entry",
    "seeded search samples histories; a clean batch is evidence, not proof",
]
