"""Shared plumbing: paths, seeds, exit codes, tree fingerprint, replay / evidence / known-findings I/O.

Nothing in here draws from a PRNG or reads a clock except `wall()` which is used only by the
batch runner for budgets and throughput figures (DESIGN 3.2).
"""
import hashlib
import json
import os
import subprocess
import sys
import time

VERIF = os.path.dirname(os.path.dirname(os.path.abspath(__file__)))
REPO = os.environ.get("VERIF_REPO", "/repo")
SRC = os.path.join(REPO, "src")
ADAPTIX_ROOT = os.path.join(SRC, "adaptix") + os.sep
GENERATED_PREFIX = "<adaptix generated"

EXIT_OK, EXIT_VIOLATION, EXIT_HARNESS = 0, 1, 2

MASK = (1 << 64) - 1


class HarnessError(Exception):
    """The machinery itself failed (timeout, lost worker, non-reproducing replay). Never a verdict."""


def wall():
    return time.monotonic()


def splitmix64(x):
    x = (x + 0x9E3779B97F4A7C15) & MASK
    z = x
    z = ((z ^ (z >> 30)) * 0xBF58476D1CE4E5B9) & MASK
    z = ((z ^ (z >> 27)) * 0x94D049BB133111EB) & MASK
    return z ^ (z >> 31)


def derive_seed(master, label, i):
    """seed_i = f(master, property/label, i): one integer decides the whole run."""
    h = int.from_bytes(hashlib.sha256(label.encode()).digest()[:8], "big")
    return splitmix64(splitmix64((master & MASK) ^ h) + i)


def import_adaptix():
    """Import adaptix from $VERIF_REPO/src (default /repo/src), i.e. always the current working tree."""
    if SRC not in sys.path[:1]:
        sys.path.insert(0, SRC)
    from .sched import install_lock_seam
    install_lock_seam()        # before adaptix is imported: every lock adaptix creates is simulated from the start
    import adaptix

    got = os.path.dirname(os.path.abspath(adaptix.__file__)) + os.sep
    if got != ADAPTIX_ROOT:
        raise HarnessError(f"adaptix imported from {got}, expected {ADAPTIX_ROOT}")
    return adaptix


def is_adaptix_file(filename):
    return filename.startswith(ADAPTIX_ROOT) or filename.startswith(GENERATED_PREFIX)


def short_file(filename):
    if filename.startswith(ADAPTIX_ROOT):
        return filename[len(ADAPTIX_ROOT):]
    if filename.startswith(GENERATED_PREFIX):
        return "<generated>"  # generated names carry a process-global counter: presentation, not behaviour
    return os.path.basename(filename)


def tree_fingerprint():
    try:
        head = subprocess.run(["git", "-C", REPO, "rev-parse", "--short", "HEAD"],
                              capture_output=True, text=True, timeout=20).stdout.strip()
        diff = subprocess.run(["git", "-C", REPO, "diff", "HEAD", "--", "src"],
                              capture_output=True, timeout=20).stdout
        dirty = hashlib.sha256(diff).hexdigest()[:8] if diff else "clean"
    except Exception:  # noqa: BLE001
        head, dirty = "unknown", "unknown"
    return {"repo": REPO, "head": head, "src_dirty": dirty}


def jdump(obj, path):
    tmp = path + ".tmp"
    with open(tmp, "w") as f:
        json.dump(obj, f, indent=1, sort_keys=False, default=_json_default)
        f.write("\n")
    os.replace(tmp, path)


def _json_default(o):
    if isinstance(o, (set, frozenset)):
        return sorted(o, key=repr)
    if isinstance(o, tuple):
        return list(o)
    if isinstance(o, bytes):
        return o.hex()
    return repr(o)


def jload(path):
    with open(path) as f:
        return json.load(f)


def canon(obj):
    """Canonical JSON text of a JSON-able object; used as dict key and for digests."""
    return json.dumps(obj, sort_keys=True, separators=(",", ":"), default=_json_default)


def digest(obj):
    return hashlib.sha256(canon(obj).encode()).hexdigest()[:16]


def tuplify(x):
    """JSON round trips turn tuples into lists; normalise to nested tuples for comparisons."""
    if isinstance(x, (list, tuple)):
        return tuple(tuplify(i) for i in x)
    if isinstance(x, dict):
        return tuple(sorted((k, tuplify(v)) for k, v in x.items()))
    return x


# ------------------------------------------------------------------------------------------------
# known findings (DESIGN 3.7): committed file, never written at run time

KNOWN_FINDINGS_FILE = os.path.join(VERIF, "known_findings.json")


def load_known_findings(prop):
    if not os.path.exists(KNOWN_FINDINGS_FILE):
        return []
    data = jload(KNOWN_FINDINGS_FILE)
    return [e for e in data.get("findings", []) if e.get("property") == prop and e.get("status") == "open"]


def match_known(entry, key):
    """An open entry matches a violation only if every field it specifies matches the finding key."""
    for k, v in entry.get("key", {}).items():
        if tuplify(key.get(k)) != tuplify(v):
            return False
    return True


def evidence_dir():
    d = os.environ.get("VERIF_EVIDENCE_DIR") or os.path.join(VERIF, "evidence")
    os.makedirs(d, exist_ok=True)
    return d


def replay_path(prop, seed, suffix=""):
    d = os.environ.get("VERIF_REPLAY_DIR") or os.path.join(VERIF, "replays")
    os.makedirs(d, exist_ok=True)
    return os.path.join(d, f"{prop}-{seed}{suffix}.json")
