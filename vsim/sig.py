"""Outcome signatures (DESIGN 3.4): canonical, identity-free, JSON-able descriptions of values,
exceptions and callables, so that an outcome in the run child can be compared with the outcome of
the same call in a pristine process image."""
import dataclasses
import enum
import io
import re
from collections import deque

_ADDR = re.compile(r" at 0x[0-9a-fA-F]+")
_GEN = re.compile(r"<adaptix generated [^>]*>")
MAX_DEPTH = 40


def tname(tp):
    return f"{getattr(tp, '__module__', '?')}.{getattr(tp, '__qualname__', getattr(tp, '__name__', repr(tp)))}"


def clean_repr(x):
    try:
        r = repr(x)
    except Exception as e:  # noqa: BLE001
        r = f"<repr failed {type(e).__name__}>"
    return _GEN.sub("<generated>", _ADDR.sub("", r))


def sig_type_hint(tp):
    """Type hints inside error attributes (expected_type etc.): compared by cleaned repr."""
    return ["hint", clean_repr(tp)]


def sig_value(v, depth=0):  # noqa: C901, PLR0911, PLR0912
    if depth > MAX_DEPTH:
        return ["deep"]
    t = type(v)
    if v is None or t is bool or t is int or t is str:
        return [t.__name__, v]
    if t is float:
        return ["float", repr(v)]
    if t is bytes or t is bytearray:
        return [t.__name__, bytes(v).hex()]
    if t is complex:
        return ["complex", repr(v)]
    if isinstance(v, enum.Enum):
        return ["enum", tname(t), v.name if v.name is not None else repr(v.value)]
    if isinstance(v, tuple) and hasattr(t, "_fields"):
        return ["ntuple", tname(t), [[f, sig_value(getattr(v, f), depth + 1)] for f in t._fields]]
    if isinstance(v, (list, tuple, deque)):
        return ["seq", tname(t), [sig_value(i, depth + 1) for i in v]]
    if isinstance(v, (set, frozenset)):
        return ["set", tname(t), sorted((sig_value(i, depth + 1) for i in v), key=repr)]
    if isinstance(v, dict):
        items = sorted(([sig_value(k, depth + 1), sig_value(x, depth + 1)] for k, x in v.items()), key=repr)
        extra = []
        if hasattr(v, "default_factory"):
            extra = [clean_repr(v.default_factory)]
        return ["map", tname(t), items, *extra]
    if isinstance(v, io.BytesIO):
        try:
            return ["stream", tname(t), v.getvalue().hex(), v.tell()]
        except ValueError:
            return ["stream", tname(t), "closed"]
    if isinstance(v, io.StringIO):
        try:
            return ["tstream", tname(t), v.getvalue(), v.tell()]
        except ValueError:
            return ["tstream", tname(t), "closed"]
    if isinstance(v, type):
        return ["class", tname(v)]
    if isinstance(v, BaseException):
        return sig_exc(v)
    if dataclasses.is_dataclass(v):
        return ["model", tname(t), [[f.name, sig_value(getattr(v, f.name, "<unset>"), depth + 1)]
                                    for f in dataclasses.fields(v)]]
    if hasattr(t, "__attrs_attrs__"):
        return ["model", tname(t), [[a.name, sig_value(getattr(v, a.name, "<unset>"), depth + 1)]
                                    for a in t.__attrs_attrs__]]
    if hasattr(t, "model_fields") and hasattr(v, "__dict__"):  # pydantic v2
        return ["model", tname(t), [[k, sig_value(x, depth + 1)] for k, x in sorted(v.__dict__.items())]]
    if hasattr(v, "__dict__") and not callable(v):
        d = {k: x for k, x in vars(v).items() if not k.startswith("_sa_")}
        return ["obj", tname(t), [[k, sig_value(x, depth + 1)] for k, x in sorted(d.items())]]
    if hasattr(t, "__slots__") and not callable(v):
        return ["obj", tname(t), [[k, sig_value(getattr(v, k, "<unset>"), depth + 1)] for k in t.__slots__]]
    return ["repr", tname(t), clean_repr(v)]


_HINT_FIELDS = {"expected_type", "excluded_type"}


def sig_trail(e):
    trail = getattr(e, "_adaptix_struct_trail", None)
    if trail is None:
        return []
    return [clean_repr(x) for x in trail]


def sig_exc(e, depth=0):
    """(class, structured attributes, trail, multiset of children). Free-text messages of groups and
    provider errors are presentation and are *not* part of the signature (DESIGN 3.4)."""
    t = type(e)
    out = {"exc": tname(t)}
    if depth > MAX_DEPTH:
        return out
    if isinstance(e, BaseExceptionGroup):
        out["children"] = sorted((sig_exc(s, depth + 1) for s in e.exceptions), key=repr)
    if dataclasses.is_dataclass(e):
        attrs = []
        for f in dataclasses.fields(e):
            if f.name in ("message", "exceptions"):
                continue
            val = getattr(e, f.name, "<unset>")
            if f.name in _HINT_FIELDS:
                attrs.append([f.name, sig_type_hint(val)])
            else:
                attrs.append([f.name, sig_value(val, depth + 1)])
        out["attrs"] = attrs
    elif not isinstance(e, BaseExceptionGroup):
        mod = t.__module__ or ""
        if mod == "builtins" or not mod.startswith("adaptix"):
            # foreign exceptions (TypeError: 'NoneType' object is not callable ...): keep the text
            out["args"] = clean_repr(e.args)
    tr = sig_trail(e)
    if tr:
        out["trail"] = tr
    if e.__cause__ is not None and depth < 6:
        out["cause"] = exc_shape(e.__cause__)
    return out


def exc_shape(e, depth=0):
    """Class-name skeleton of a (CannotProvide) cause tree; messages are presentation."""
    if depth > 12:
        return ["deep"]
    notes = len(getattr(e, "__notes__", None) or ())     # how many notes (e.g. "Location: ...") were attached, not their text
    if isinstance(e, BaseExceptionGroup):
        return [tname(type(e)), notes, sorted((exc_shape(s, depth + 1) for s in e.exceptions), key=repr)]
    return [tname(type(e)), notes]


def outcome(fn, *args):
    """Run fn(*args) and return ['ok', sig] or ['exc', sig]. BaseException is caught on purpose:
    simulated interrupts and anything else must surface as an outcome, never kill the run."""
    try:
        r = fn(*args)
    except BaseException as e:  # noqa: BLE001
        if AFTER_CALL_HOOK is not None:
            AFTER_CALL_HOOK()
        LAST_EXC[0] = e
        return ["exc", sig_exc(e)], None
    if AFTER_CALL_HOOK is not None:
        AFTER_CALL_HOOK()
    return ["ok", sig_value(r)], r


def strip_payload(sig):
    """Outcome signature without the structured attributes of exceptions (class, trail and tree shape stay).
    Used for calls made after the client has overwritten the payload of an earlier exception: whether such a
    payload is private to one exception object is not something a listed property fixes, what a later call
    accepts, returns or raises is."""
    if isinstance(sig, list):
        return [strip_payload(x) for x in sig]
    if isinstance(sig, dict):
        return {k: strip_payload(v) for k, v in sig.items() if not ("exc" in sig and k == "attrs")}
    return sig


# the exception object of the most recent failed outcome() (the hostile client of C20 keeps and mutates it)
LAST_EXC = [None]

# set by histsim while an interrupt is armed: computing a signature calls adaptix code too (reprs of trail
# elements, __eq__ of models); the fault belongs to the call under test, never to the harness
AFTER_CALL_HOOK = None
