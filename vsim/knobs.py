"""Buggify knobs that can be turned from outside the source (DESIGN 3.1)."""
import sys
from functools import lru_cache


def set_norm_cache(size):
    """Rebind the process-wide normalisation cache to an empty lru_cache(maxsize=size).
    `normalize_type` looks the global up on every call, so this takes effect immediately.
    Returns the cache object (for cache_info()) or None if the internals moved."""
    mod = sys.modules.get("adaptix._internal.type_tools.normalize_type")
    if mod is None or not hasattr(mod, "_cached_normalize") or not hasattr(mod, "_STD_NORMALIZER"):
        return None
    c = lru_cache(maxsize=size)(mod._STD_NORMALIZER.normalize)
    mod._cached_normalize = c
    return c


def source_line(relpath, needle):
    """Line number (1-based) of the first source line of src/adaptix/<relpath> containing `needle`,
    or None. Reach probes use it so that they degrade to 'unavailable' instead of breaking when
    the code is refactored."""
    from .common import ADAPTIX_ROOT
    try:
        with open(ADAPTIX_ROOT + relpath) as f:
            for i, line in enumerate(f, 1):
                if needle in line:
                    return i
    except OSError:
        return None
    return None
