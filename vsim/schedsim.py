"""C12 — a shared retort under concurrent first use (DESIGN 4)."""
import random
import sys

from . import knobs, ops, pools
from .common import canon, digest
from .sched import GLOBAL_PATCHER, Scheduler, make_policy, mon

PROP = "C12"
NAME = "schedsim"
ASSUMPTIONS = [
    "preemption points are source-line events (sys.monitoring LINE) in files under src/adaptix/ and in adaptix-generated "
    "code; code outside adaptix is atomic for the scheduler",
    "the reference for every call is the same call on a freshly constructed retort in a process image forked from a "
    "pristine warmed parent; it is trusted to be what the library means",
    "free-text error messages and generated file names are not compared",
    "only CPython 3.12 (/venv) is exercised; line granularity over-approximates its real switch points",
    "seeded search samples schedules; a clean batch is evidence, not proof",
]

# clusters of types that collide when requested concurrently
CLUSTERS = {
    "node": {"types": ["Node", "ListNode", "Holder", "Outer1", "Outer2", "OptNode", "DictStrNode"],
             "recipes": ["plain", "plain", "chain_node_children", "scoped_node_value", "nm_camel", "dumper_scoped",
                         "nm_scoped_upper", "nm_scoped_node"], "w": 5},
    "tree": {"types": ["Tree"], "recipes": ["plain", "nm_omit_default"], "w": 2},
    "mutual": {"types": ["RA", "RB"], "recipes": ["plain", "nm_camel_shared"], "w": 3},
    "linked": {"types": ["LinkedInt", "LinkedStr", "LinkedBool"], "recipes": ["plain", "scoped_linked_head"], "w": 2},
    "literal": {"types": ["Lit01", "LitFT", "Lit10", "OptLit01", "OptLitFT", "GLit01", "GLitFT", "ListLit01", "ListLitFT",
                          "TupLit01", "TupLitFT", "LitA1", "LitAT"], "recipes": ["plain"], "w": 2},
    "models": {"types": ["M1", "M2", "M3", "ListM1", "ListM2", "UM1M3", "UM3M1", "OptM1", "DictStrM1", "Inner", "NT", "TD", "AT",
                         "WithDefaults", "WithExtra", "PM"],
               "recipes": ["plain", "nm_camel", "nm_extra_collect", "chain_int_shared", "scoped_int", "validator_inner",
                           "nm_as_list", "nm_maps", "nm_maps"], "w": 3},
    "generic": {"types": ["GInt", "GBool", "GStr", "GListInt", "PairIntStr", "PairStrInt", "PairBoolStr", "ListInt", "listInt",
                          "SeqInt", "UIntStr", "UStrInt", "ListingA", "ListingB"], "recipes": ["plain", "chain_int_last"], "w": 1},
    "modules": {"types": ["ListingA", "ListingB", "MBoxA", "MBoxB"], "recipes": ["plain"], "w": 1},
    "tuples": {"types": ["TupIntStr", "TupBoolStr", "TupListDict", "TupLit01", "TupLitFT", "TupIntEll", "TNode", "TupInt"],
               "recipes": ["plain"], "w": 1},
    "unions": {"types": ["UM1M3", "UM3M1", "ULM1LM2", "ULM2LM1", "UDM1DM2", "UDM2DM1", "UDupAB", "UDupBA", "UIntStr", "UStrInt",
                         "OptInt", "UIntNone", "PipeIntNone"], "recipes": ["plain"], "w": 1},
}
CONV_CLUSTER = ["Outer", "OuterSame", "Inner", "ListInner", "OptInner", "DictInner", "InnerTags", "M1M2", "InnerSame", "CLink",
                "CLink", "M1Str", "CTags", "Ann", "ImplExtra", "ImplTags"]
CONV_RCP = {"CLink": ["link_b_c", "link_a_c"], "M1Str": ["coerce_int_str", "coerce_int_hash"], "CTags": ["const_factory"]}


def _types(cluster):
    return [t for t in CLUSTERS[cluster]["types"] if t in pools.TYPES]


def gen_program(rng, cluster, n_ops, first=None, about=(), derive=False):
    """about: types the retort's recipe is about (a share of the ops is steered towards them); derive: the
    program may replace()/extend() the shared retort"""
    prog = []
    n_handles = 1
    n_callables = 0
    callable_kinds = []
    for i in range(n_ops):
        if i == 0 and first is not None:
            op = dict(first)
        else:
            r = rng.random()
            if derive and rng.random() < 0.10:
                # derive a retort from the shared one while other threads are using it; later ops may use the clone
                op = ({"op": "replace", "h": 0, "opts": rng.choice([{"strict_coercion": False}, {"debug_trail": "FIRST"},
                                                                     {"strict_coercion": True, "debug_trail": "DISABLE"}])}
                      if rng.random() < 0.5 else {"op": "extend", "h": 0, "recipe": rng.choice(["nm_camel", "chain_int_last",
                                                                                                 "validator_inner"])})
                n_handles += 1
                prog.append(op)
                continue
            t = rng.choice(_types(cluster)) if rng.random() > 0.07 else rng.choice(["Unsupported", "ListUnsupported", "CallableT"])
            if about and rng.random() < 0.4:
                t = rng.choice(about)
            if r < 0.15 and n_callables:
                c = rng.randrange(n_callables)
                k, ct = callable_kinds[c]
                op = ({"op": "call", "c": c, "d": rng.choice(pools.battery(ct)[:4])} if k == "get_loader"
                      else {"op": "call", "c": c, "o": rng.choice(pools.dump_battery(ct))})
            elif r < 0.55:
                op = {"op": "load", "h": rng.randrange(n_handles), "t": t, "d": rng.choice(pools.battery(t)[:3])}
            elif r < 0.70:
                op = {"op": "get_loader", "h": rng.randrange(n_handles), "t": t}
            elif r < 0.92:
                op = {"op": "dump", "h": rng.randrange(n_handles), "t": t, "o": rng.choice(pools.dump_battery(t))}
                if rng.random() < 0.15:
                    op["infer"] = True      # dump(obj): the type is inferred from the object
            else:
                op = {"op": "get_dumper", "h": rng.randrange(n_handles), "t": t}
        if op["op"] in ("get_loader", "get_dumper"):
            n_callables += 1
            callable_kinds.append((op["op"], op["t"]))
        prog.append(op)
    return prog


def gen_conv_program(rng, n_ops, first=None):
    prog = []
    n_callables = 0
    kinds = []
    for i in range(n_ops):
        if i == 0 and first is not None:
            op = dict(first)
        else:
            r = rng.random()
            c = rng.choice(CONV_CLUSTER)
            if r < 0.2 and n_callables:
                j = rng.randrange(n_callables)
                op = {"op": "call", "c": j, "o": rng.choice(pools.CONVERTERS[kinds[j]][2])}
            elif r < 0.6:
                op = {"op": "get_converter", "h": 0, "conv": c}
            else:
                op = {"op": "convert", "h": 0, "conv": c, "o": rng.choice(pools.CONVERTERS[c][2])}
            if op["op"] != "call" and c in CONV_RCP and rng.random() < 0.85:
                op["rcp"] = rng.choice(CONV_RCP[c])          # per-call recipe
                op["rcp_shared"] = rng.random() < 0.7        # the same provider objects in every thread
        if op["op"] == "get_converter":
            n_callables += 1
            kinds.append(op["conv"])
        prog.append(op)
    return prog


CALL_RACE_TYPES = ["TupIntStr", "TupBoolStr", "TupListDict", "TupLit01", "TupInt", "TNode", "ListInt", "SetInt", "DequeInt",
                   "ListListInt", "DictStrInt", "DictStrListInt", "DDictStrInt", "MapStrListInt", "UIntStr", "UListIntStr",
                   "ULM1LM2", "OptListInt", "Lit01", "LitA1", "Color", "Perm", "bytes", "bytearray", "Decimal", "M1", "Node",
                   "WithDefaults", "NT", "TD", "AT", "GListInt", "PairIntStr", "ListM1", "DictStrM1", "TupIntEll", "FSetInt"]


def gen_policy(rng, n_threads):
    r = rng.random()
    if r < 0.35:
        return {"kind": "sweep1", "t": rng.randrange(n_threads), "mode": "hot", "frac": rng.random(), "f2": rng.random()}
    if r < 0.50:
        return {"kind": "sweep1", "t": rng.randrange(n_threads), "mode": "uniform", "frac": rng.random()}
    if r < 0.80:
        d = rng.choice([2, 3, 4])
        prios = list(range(1, n_threads + 1))
        rng.shuffle(prios)
        if r < 0.70:
            return {"kind": "pct", "prios": prios,
                    "cp_hot": [[rng.randrange(n_threads), rng.random(), rng.random()] for _ in range(d - 1)]}
        return {"kind": "pct", "prios": prios, "cp_fracs": sorted(rng.random() for _ in range(d - 1))}
    if r < 0.90:
        return {"kind": "walk", "seed": rng.getrandbits(32), "p": rng.choice([1 / 50, 1 / 500, 1 / 5000, 1 / 50000])}
    return {"kind": "rr", "q": rng.choice([1, 2, 7, 50, 500, 5000])}


# where shared state is read and written: opcode-level preemption (thorough tier) is confined to these files
INSTR_FILES = frozenset({
    "_internal/morphing/facade/retort.py", "_internal/conversion/facade/retort.py", "_internal/retort/builtin_mediator.py",
    "_internal/retort/operating_retort.py", "_internal/code_tools/compiler.py",
})

# the retort's lookup / creation / caching code (C12's anchors): preemption points are biased towards it
HOT_FILES = frozenset({
    "_internal/morphing/facade/retort.py", "_internal/conversion/facade/retort.py", "_internal/retort/searching_retort.py",
    "_internal/retort/builtin_mediator.py", "_internal/retort/operating_retort.py", "_internal/retort/request_bus.py",
    "_internal/retort/base_retort.py", "_internal/retort/routers.py", "_internal/code_tools/compiler.py",
    "_internal/utils.py", "_internal/morphing/facade/func.py", "_internal/conversion/facade/func.py",
    "_internal/type_tools/normalize_type.py",      # the process-wide normaliser and its cache are shared state too
    "_internal/code_tools/ast_templater.py",       # the AST templater: its walk calls back into adaptix from the stdlib
})


def gen(seed, cfg=None):
    rng = random.Random(seed)
    names = sorted(CLUSTERS)
    r = rng.random()
    n_threads = 2 if rng.random() < 0.7 else 3
    same_first = rng.random() < 0.6
    if r < 0.14:
        cluster = "conv"
        handle = {"base": rng.choice(["ConversionRetort", "ConversionRetort", "global_conversion"]), "recipe": "plain"}
        first = gen_conv_program(rng, 1)[0] if same_first else None
        programs = [gen_conv_program(rng, rng.choice([1, 1, 2, 3]), first) for _ in range(n_threads)]
    else:
        cluster = rng.choices(names, weights=[CLUSTERS[n]["w"] for n in names])[0]
        base = "global_morphing" if rng.random() < 0.08 else "Retort"
        handle = {"base": base, "recipe": "plain"}
        if base == "Retort":
            handle["opts"] = {"strict_coercion": rng.random() < 0.7,
                              "debug_trail": rng.choice(["ALL", "ALL", "FIRST", "DISABLE"])}
            handle["recipe"] = rng.choice(CLUSTERS[cluster]["recipes"])
        about = [t for t in pools.RECIPE_TYPES.get(handle["recipe"], []) if t in pools.TYPES]
        first = gen_program(rng, cluster, 1, about=about)[0] if same_first else None
        programs = [gen_program(rng, cluster, rng.choice([1, 1, 2, 3, 4]), first, about, derive=(base == "Retort"))
                    for _ in range(n_threads)]
    prologue = []
    if cluster != "conv" and rng.random() < 0.15:
        # call race: the loader / dumper exists already (warm retort), the threads only *call* it, so every
        # preemption lands in load-time code (closures of the non-model providers, generated model code)
        t = rng.choice([x for x in CALL_RACE_TYPES if x in pools.TYPES])
        cluster = "callrace"
        handle["recipe"] = "plain"
        if "opts" in handle:
            handle["opts"]["debug_trail"] = rng.choice(["DISABLE", "DISABLE", "FIRST", "ALL"])
        if rng.random() < 0.7:
            prologue = [{"op": "load", "h": 0, "t": t, "d": pools.battery(t)[0]}]
            programs = [[{"op": "load", "h": 0, "t": t, "d": rng.choice(pools.battery(t)[:4])} for _ in range(rng.choice([1, 2, 3]))]
                        for _ in range(n_threads)]
        else:
            prologue = [{"op": "dump", "h": 0, "t": t, "o": pools.dump_battery(t)[0]}]
            programs = [[{"op": "dump", "h": 0, "t": t, "o": rng.choice(pools.dump_battery(t))} for _ in range(rng.choice([1, 2, 3]))]
                        for _ in range(n_threads)]
    elif cluster != "conv" and rng.random() < 0.04:
        # data scale: one loader has already been called with n0 distinct data; one thread calls it with an early datum
        # again while the other feeds it 150 new ones
        t, g, rcp = rng.choice(pools.BULK_CALLS)
        cluster = "datascale"
        handle["recipe"] = rcp if handle.get("base") == "Retort" else "plain"
        if handle["recipe"] != rcp:
            t, g = "int", "int"
        n0 = rng.choice([64, 128, 256, 512, 1024]) - rng.randint(5, 60)
        gl = {"op": "get_loader", "h": 0, "t": t}
        prologue = [gl, {"op": "bulk_call", "c": 0, "gen": g, "n": n0, "start": 0}]
        programs = [[gl, {"op": "bulk_call", "c": 0, "gen": g, "n": rng.choice([1, 2]), "start": rng.choice([0, 0, n0 // 2])}],
                    [gl, {"op": "bulk_call", "c": 0, "gen": g, "n": 150, "start": n0}]]
        if n_threads == 3:
            programs.append([gl, {"op": "bulk_call", "c": 0, "gen": g, "n": 3, "start": n0 - 2}])
    elif cluster != "conv" and rng.random() < 0.3:
        # the retort is already warm for something else when the threads start racing
        prologue = [op for op in gen_program(rng, cluster, rng.choice([1, 2]), about=about) if op["op"] in ("load", "dump")]
    if cluster not in ("conv", "callrace") and rng.random() < 0.05:
        # scale: the shared retort has already served hundreds or thousands of types (its caches are that large) and one
        # thread keeps adding more while the other makes an ordinary first request that re-uses old cache entries
        n0 = rng.choice([128, 256, 512, 1024, 2048, 4096]) - rng.randint(10, 110)
        cluster = "scale"
        old = [op for op in gen_program(rng, "models", 2, about=about) if op["op"] in ("load", "dump")]
        prologue = [*old, {"op": "bulk", "h": 0, "n": n0, "start": 0}]
        programs = [gen_program(rng, "models", rng.choice([1, 2]), None, about), [{"op": "bulk", "h": 0, "n": 150, "start": n0}]]
        if n_threads == 3:
            programs.append(gen_program(rng, "generic", 1, None, about))
    scn = {
        "engine": "schedsim", "seed": seed, "cluster": cluster, "handle": handle, "prologue": prologue, "threads": programs,
        "policy": gen_policy(rng, n_threads), "norm_cache": rng.choice([1, 2, 8, 128, 128]),
    }
    if cluster in ("callrace", "datascale"):
        r = rng.random()
        if r < 0.5:
            scn["policy"] = {"kind": "sweep1", "t": rng.randrange(n_threads), "mode": "uniform", "frac": rng.random()}
        elif r < 0.75:
            scn["policy"] = {"kind": "walk", "seed": rng.getrandbits(32), "p": rng.choice([1 / 5, 1 / 20, 1 / 50])}
        else:
            scn["policy"] = {"kind": "rr", "q": rng.choice([1, 2, 3, 7])}
    if cluster == "scale" and rng.random() < 0.7:
        # the ordinary request is stopped once inside the lookup/creation/caching code, the bulk thread runs in between
        scn["policy"] = {"kind": "sweep1", "t": 0, "mode": "hot", "frac": rng.random(), "f2": rng.random()}
    if cluster not in ("callrace", "datascale", "scale") and rng.random() < 0.12:
        # one caller is interrupted (KeyboardInterrupt- or RecursionError-shaped, at a function entry) in the middle of a
        # request while the others go on using the same retort
        scn["kill"] = {"t": rng.randrange(n_threads), "frac": rng.random(), "exc": rng.choice(["base", "base", "recursion"])}
    if (cfg or {}).get("instr_share", 0) > 0 and rng.random() < cfg["instr_share"]:
        scn["granularity"] = "instr"    # opcode-level preemption inside the hot files
    return scn


# ------------------------------------------------------------------------------------------------
# references

def _solo_desc(scn, t):
    d = {"op": "solo", "handle": scn["handle"], "program": scn["threads"][t], "norm_cache": scn.get("norm_cache", 128)}
    if scn.get("prologue"):
        d["prologue"] = scn["prologue"]
    if scn.get("granularity") == "instr":
        d["granularity"] = "instr"
    if scn.get("kill") and scn["kill"]["t"] == t and "frac" in scn["kill"]:
        d["entries"] = True     # the solo measurement also counts the thread's function entries (crash points)
    return d


def _post_ops(scn):
    """Fresh facade request, on the now-warm retort, for every type/converter any thread touched."""
    seen = []
    for prog in [scn.get("prologue") or [], *scn["threads"]]:
        for op in prog:
            if "t" in op:
                k = ("get_loader" if op["op"] in ("load", "get_loader") else "get_dumper", op["t"])
                post = {"op": k[0], "h": 0, "t": k[1]}
            elif "conv" in op:
                post = {"op": "get_converter", "h": 0, "conv": op["conv"],
                        **{k: op[k] for k in ("rcp", "rcp_shared") if k in op}}
            else:
                continue
            if post not in seen:
                seen.append(post)
            if op.get("infer") and op["op"] == "dump":
                again = {"op": "dump", "h": 0, "t": op["t"], "o": op["o"], "infer": True}    # the same inferred dump, later
                if again not in seen:
                    seen.append(again)
    return seen


def refs_needed(scn):
    out = [d for d in ops.static_ref_descs([scn["handle"]], scn.get("prologue") or []) if d is not None]
    for t, prog in enumerate(scn["threads"]):
        out.extend(d for d in ops.static_ref_descs([scn["handle"]], prog) if d is not None)
        if _needs_solo(scn["policy"], scn):
            out.append(_solo_desc(scn, t))
    out.extend(ops.static_ref_descs([scn["handle"]], _post_ops(scn)))
    return out


def _needs_solo(pol, scn=None):
    if scn is not None and scn.get("kill") and "frac" in scn["kill"]:
        return True
    return pol["kind"] in ("sweep1", "pct") and any(k in pol for k in ("frac", "cp_fracs", "cp_hot"))


def compute_ref(desc):
    knobs.set_norm_cache(128)
    if desc["op"] == "solo":
        scn = {"handle": desc["handle"], "threads": [desc["program"]], "policy": {"kind": "solo"},
               "prologue": desc.get("prologue") or [],
               "norm_cache": desc["norm_cache"], "granularity": desc.get("granularity", "line"),
               "count_entries": bool(desc.get("entries"))}
        res = execute(scn, None)
        out = {"steps": res["steps"][0], "hot": res["hot"].get(0, {})}
        if desc.get("entries"):
            out["entries"] = res["entries"][0]
        return out
    return ops.compute_ref(desc)


# ------------------------------------------------------------------------------------------------
# execution

_PROBE_SITES = None


def probe_sites():
    global _PROBE_SITES  # noqa: PLW0603
    if _PROBE_SITES is None:
        spec = {
            "call_cache_hit": ("_internal/retort/builtin_mediator.py", "return self._call_cache[key]"),
            "call_cache_insert": ("_internal/retort/builtin_mediator.py", "self._call_cache[key] = result"),
            "stub_created": ("_internal/retort/operating_retort.py", "stub = FuncWrapper("),
            "stub_reused": ("_internal/retort/operating_retort.py", "return self._loc_to_stub[last_loc]"),
            "stub_bound": ("_internal/retort/operating_retort.py", ".set_func(response)"),
            "loader_cache_miss": ("_internal/morphing/facade/retort.py", "loader_ = self._make_loader(tp)"),
            "dumper_cache_miss": ("_internal/morphing/facade/retort.py", "dumper_ = self._make_dumper(tp)"),
            "converter_cache_miss": ("_internal/conversion/facade/retort.py", "converter = retort._make_simple_converter("),
            "counter_body": ("_internal/code_tools/compiler.py", "idx = self._name_to_idx[name]"),
        }
        _PROBE_SITES = {}
        for name, (rel, needle) in spec.items():
            ln = knobs.source_line(rel, needle)
            _PROBE_SITES[name] = None if ln is None else f"{rel}:{ln}"
    return _PROBE_SITES


def classify(expected, observed):
    if expected[0] == "ok" and observed[0] == "exc":
        return "unexpected-exception"
    if expected[0] == "exc" and observed[0] in ("ok", "callable"):
        return "unexpected-success"
    if expected[0] == "exc" and observed[0] == "exc":
        return "wrong-exception"
    if expected[0] == "callable" and observed[0] == "exc":
        return "unexpected-exception"
    return "wrong-result"


def execute(scn, refs):  # noqa: C901, PLR0912, PLR0915
    """Runs in a forked child. refs=None: solo measurement (no comparisons)."""
    patcher = GLOBAL_PATCHER
    patcher.install()
    knobs.set_norm_cache(scn.get("norm_cache", 128))
    main_world = ops.World([scn["handle"]])
    n = len(scn["threads"])
    prologue_out = [main_world.run(op)[0] for op in scn.get("prologue") or []]     # single-threaded, unmonitored
    solo = [{"steps": 1, "hot": {}} for _ in range(n)]
    if refs is not None and _needs_solo(scn["policy"], scn):
        for t in range(n):
            solo[t] = refs.get(canon(_solo_desc(scn, t)), solo[t])
    solo_steps = [s["steps"] for s in solo]
    policy = make_policy(scn["policy"], solo)
    budget = 400_000 if refs is None else 3 * sum(max(s, 3000) for s in solo_steps) + 50_000
    if refs is not None and not _needs_solo(scn["policy"], scn):
        budget = 1_500_000
    if scn["policy"]["kind"] in ("walk", "rr", "replay") and refs is not None:
        budget = 1_500_000
    sched = Scheduler(policy, max_steps=budget, wall_timeout=25.0, keep_log=bool(scn.get("keep_log")))
    sched.hot_files = HOT_FILES
    sched.instr = scn.get("granularity") == "instr"
    sched.instr_files = INSTR_FILES
    patcher.sched = sched
    sched.count_entries = bool(scn.get("count_entries"))
    kl = scn.get("kill")
    if kl and refs is not None:
        from .histsim import SimInterrupt, SimRecursionError
        k = kl["k"] if "k" in kl else 1 + int(kl["frac"] * max(0, solo[kl["t"]].get("entries", 1) - 1))
        if kl["t"] < n:
            sched.kill = {"t": kl["t"], "k": k, "exc": SimInterrupt if kl.get("exc", "base") == "base" else SimRecursionError}
    results = [[] for _ in range(n)]
    worlds = [ops.World(None, share=main_world) for _ in range(n)]
    sched.watch = {v: k for k, v in probe_sites().items() if v is not None}

    def make_body(t):
        def body():
            for i, op in enumerate(scn["threads"][t]):
                sched.cur_op[t] = i
                sched.in_flight.add(t)
                try:
                    out, _, _ = worlds[t].run(op)
                finally:
                    sched.in_flight.discard(t)
                results[t].append(out)
        return body

    for t in range(n):
        sched.add_thread(make_body(t))

    idx_seen = []

    def on_counter_return(code, offset, retval):
        try:
            name = sys._getframe(1).f_locals.get("name")
        except Exception:  # noqa: BLE001
            name = None
        idx_seen.append((name, retval, sched.cur_tid()))

    counter_code = None
    try:
        import adaptix._internal.code_tools.compiler as comp
        counter_code = comp.ConcurrentCounter.generate_idx.__code__
    except Exception:  # noqa: BLE001
        counter_code = None

    _run_with_extras(sched, counter_code, on_counter_return)

    # ---- evaluate -------------------------------------------------------------------------------
    violations = []
    if sched.failure is not None:
        kind, info = sched.failure
        violations.append({"class": kind, "info": info})
    stats = {
        "steps": list(sched.steps), "total_steps": sched.total_steps, "switches": len(sched.switches),
        "preemptions": sum(1 for s in sched.switches if s["kind"] == "preempt"),
        "lock_blocks": sched.lock_blocks, "overlap_steps": sched.overlap_steps,
        "locks_simulated": len(patcher.locks), "digest": sched.digest(),
        "counter_ids": len(idx_seen),
    }
    if refs is None:
        stats["hot"] = sched.hot
        stats["entries"] = list(sched.entries)
        return stats
    killed = sched.killed
    stats["caller_killed"] = 1 if killed else 0
    stats["caller_kill_planned_not_reached"] = 1 if (sched.kill and not killed) else 0
    # oracle 5: ids handed out by the locked counter are pairwise distinct per base name
    seen = {}
    for name, idx, tid in idx_seen:
        if (name, idx) in seen:
            violations.append({"class": "dup-counter-idx", "info": {"name": str(name), "idx": idx,
                                                                    "threads": [seen[(name, idx)], tid]}})
            break
        seen[(name, idx)] = tid
    for op, d, obs in zip(scn.get("prologue") or [], ops.static_ref_descs([scn["handle"]], scn.get("prologue") or []), prologue_out):
        if op["op"] in ("bulk", "bulk_call") and obs != ["skipped"] and obs[2]:
            violations.append({"class": "unexpected-exception", "phase": "prologue", "op": op,
                               "expected": ["bulk", op["n"], []], "observed": obs})
        if d is not None and obs != refs[canon(d)]:
            violations.append({"class": classify(refs[canon(d)], obs), "phase": "prologue", "op": op,
                               "expected": refs[canon(d)], "observed": obs})
    # oracle 2: every op equals its single-threaded pristine reference
    if sched.failure is None:
        for t, prog in enumerate(scn["threads"]):
            descs = ops.static_ref_descs([scn["handle"]], prog)
            for i, (op, d) in enumerate(zip(prog, descs)):
                if i >= len(results[t]):
                    violations.append({"class": "op-missing", "thread": t, "op_index": i, "op": op})
                    break
                obs = results[t][i]
                if killed and killed["t"] == t and killed["op_index"] == i:
                    continue      # the interrupted call itself is not compared, everything after and around it is
                if op["op"] in ("replace", "extend") and obs[0] != "handle":
                    violations.append({"class": "unexpected-exception", "phase": "concurrent", "thread": t, "op_index": i,
                                       "op": op, "expected": ["handle"], "observed": obs})
                    continue
                if op["op"] in ("bulk", "bulk_call") and obs != ["skipped"] and obs[2]:
                    violations.append({"class": "unexpected-exception", "phase": "concurrent", "thread": t, "op_index": i,
                                       "op": op, "expected": ["bulk", op["n"], []], "observed": obs})
                    continue
                if d is None or obs == ["skipped"]:
                    continue
                exp = refs[canon(d)]
                if obs != exp:
                    violations.append({"class": classify(exp, obs), "phase": "concurrent", "thread": t, "op_index": i,
                                       "op": op, "expected": exp, "observed": obs})
        # oracle 3: loaders obtained concurrently stay correct; so does the warm retort
        for t in range(n):
            for j, (fn, tmpl) in enumerate(worlds[t].callables):
                if fn is None or tmpl is None:
                    continue
                exp = refs[canon(tmpl)]
                if tmpl["op"] == "get_loader":
                    obs = ["callable", ops.loader_battery(fn, tmpl["t"])]
                elif tmpl["op"] == "get_dumper":
                    obs = ["callable", ops.dumper_battery(fn, tmpl["t"])]
                else:
                    obs = ["callable", ops.converter_battery(fn, tmpl["conv"])]
                if obs != exp:
                    violations.append({"class": classify(exp, obs), "phase": "later-call", "thread": t, "callable": j,
                                       "op": {k: v for k, v in tmpl.items() if k not in ("flat", "late")},
                                       "expected": exp, "observed": obs})
        post = _post_ops(scn)
        pdescs = ops.static_ref_descs([scn["handle"]], post)
        for op, d in zip(post, pdescs):
            obs, _, _ = main_world.run(op)
            exp = refs[canon(d)]
            if obs != exp:
                violations.append({"class": classify(exp, obs), "phase": "post-probe", "op": op,
                                   "expected": exp, "observed": obs})
    site_hits = {}
    makers = {}
    for (name, tid), cnt in sorted(sched.watch_hits.items()):
        site_hits[name] = site_hits.get(name, 0) + cnt
        if name.endswith("_cache_miss"):
            makers.setdefault(name, set()).add(tid)
    stats["site_hits"] = site_hits
    stats["both_missed_cache"] = sum(1 for v in makers.values() if len(v) > 1)
    segs = [[tid, (-1 if kind in ("finish", "block") else cnt), cnt] for tid, cnt, kind in sched.segments]
    return {
        "violations": violations, "stats": stats, "segments": segs, "killed": killed,
        "switches": sched.switches[:200], "steps": list(sched.steps),
    }


def _run_with_extras(sched, counter_code, on_counter_return):
    """Scheduler.run plus a PY_RETURN observer on the id counter (observation only, no patching)."""
    if counter_code is None:
        sched.run()
        return
    orig_run_setup = mon.set_events

    def patched_set_events(tool, events):
        orig_run_setup(tool, events)
        if events:
            try:
                mon.register_callback(tool, mon.events.PY_RETURN, on_counter_return)
                mon.set_local_events(tool, counter_code, mon.events.PY_RETURN)
            except Exception:  # noqa: BLE001, S110
                pass
        else:
            try:
                mon.set_local_events(tool, counter_code, 0)
                mon.register_callback(tool, mon.events.PY_RETURN, None)
            except Exception:  # noqa: BLE001, S110
                pass

    mon.set_events = patched_set_events
    try:
        sched.run()
    finally:
        mon.set_events = orig_run_setup


# ------------------------------------------------------------------------------------------------
# minimisation candidates and finding keys

def to_replay(scn, result):
    s = dict(scn)
    s["policy"] = {"kind": "replay", "segments": result["segments"]}
    if scn.get("kill"):
        kd = result.get("killed")
        if kd:    # the fault trace made explicit: absolute entry number and site
            s["kill"] = {"t": kd["t"], "k": kd["k"], "exc": scn["kill"].get("exc", "base"), "site": kd["at"]}
        else:
            s.pop("kill")
    return s


def candidates(scn):  # noqa: C901
    """Smaller scenarios, most aggressive first. Each is one deterministic re-execution."""
    threads = scn["threads"]
    if scn.get("kill"):
        s = dict(scn)
        s.pop("kill")
        yield s
    segs = scn["policy"].get("segments")
    # drop a whole thread (keep >= 2 while a schedule matters; 1 thread = pure history bug)
    if len(threads) > 1:
        for t in range(len(threads)):
            s = dict(scn)
            if s.get("kill"):
                if s["kill"]["t"] == t:
                    s.pop("kill")
                elif s["kill"]["t"] > t:
                    s["kill"] = {**s["kill"], "t": s["kill"]["t"] - 1}
            s["threads"] = [p for i, p in enumerate(threads) if i != t]
            if segs is not None:
                ns = []
                for seg in segs:
                    tid = seg[0]
                    if tid == t:
                        continue
                    ns.append([tid - 1 if tid > t else tid, *seg[1:]])
                s["policy"] = {"kind": "replay", "segments": ns or [[0, -1]]}
            yield s
    # drop ops from the end of a program / single ops (call indices must stay valid)
    for t, prog in enumerate(threads):
        for i in reversed(range(len(prog))):
            if len(prog) == 1:
                continue
            newp = prog[:i] + prog[i + 1:]
            if not _valid_calls(newp):
                continue
            s = dict(scn)
            s["threads"] = [newp if j == t else p for j, p in enumerate(threads)]
            yield s
    if scn.get("prologue"):
        yield {**scn, "prologue": []}
        if len(scn["prologue"]) > 1:
            for i in range(len(scn["prologue"])):
                yield {**scn, "prologue": [o for j, o in enumerate(scn["prologue"]) if j != i]}
    # simpler options
    h = scn["handle"]
    if h.get("recipe", "plain") != "plain":
        s = dict(scn)
        s["handle"] = {**h, "recipe": "plain"}
        yield s
    if scn.get("norm_cache", 128) != 128:
        s = dict(scn)
        s["norm_cache"] = 128
        yield s
    # schedule
    if segs is not None:
        yield from _schedule_candidates(scn, segs)


def _schedule_candidates(scn, segs):
    from itertools import permutations
    n = len(segs)
    nt = len(scn["threads"])
    if n > nt + 1:
        # (a) no overlap at all: a failure here is a pure history bug
        for perm in list(permutations(range(nt)))[:6]:
            yield {**scn, "policy": {"kind": "replay", "segments": [[t, -1] for t in perm]}}
        # (b) one preemption, at a switch point of the recorded trace
        cum = [0] * nt
        points = []
        for seg in segs:
            tid, cnt = seg[0], seg[1]
            raw = seg[2] if len(seg) > 2 else cnt
            if raw is None or raw < 0:
                continue
            cum[tid] += raw
            if cnt != -1:
                points.append((tid, cum[tid]))
        if len(points) > 24:
            step = len(points) / 24
            points = [points[int(i * step)] for i in range(24)]
        for tid, k in points:
            others = [[o, -1] for o in range(nt) if o != tid]
            yield {**scn, "policy": {"kind": "replay", "segments": [[tid, k], *others, [tid, -1]]}}
    # (c) ddmin over the list of segments (big chunks first), then let single threads run on
    size = n // 2
    while size >= 1:
        for start in range(0, n, size):
            rest = segs[:start] + segs[start + size:]
            if rest and len(rest) < n:
                yield {**scn, "policy": {"kind": "replay", "segments": rest}}
        size //= 2
    for i in range(min(n, 40)):
        if segs[i][1] != -1:
            yield {**scn, "policy": {"kind": "replay", "segments": segs[:i] + [[segs[i][0], -1]] + segs[i + 1:]}}


def _valid_calls(prog):
    n = 0
    for op in prog:
        if op["op"] == "call" and op["c"] >= n:
            return False
        if op["op"].startswith("get_"):
            n += 1
    return True


def violation_class(result):
    v = result["violations"]
    return v[0]["class"] if v else None


def finding_key(scn, result, v=None):
    v = v or result["violations"][0]
    types = sorted({op.get("t") or op.get("conv") for prog in scn["threads"] for op in prog if op.get("t") or op.get("conv")})
    return {"class": v["class"], "phase": v.get("phase"), "op": (v.get("op") or {}).get("op"), "types": types,
            "threads": len(scn["threads"]),
            "preemptions": sum(1 for seg in scn["policy"].get("segments", []) if seg[1] != -1)}


def prelim_key(scn, result):
    v = result["violations"][0]
    return {"class": v["class"], "phase": v.get("phase"), "op": (v.get("op") or {}).get("op"),
            "type": (v.get("op") or {}).get("t") or (v.get("op") or {}).get("conv")}


def summarize(scn, res):
    st = res.get("stats", {})
    sw = res.get("switches") or []
    ilv = digest([scn["handle"], scn.get("prologue"), scn["threads"], [(s["from"], s["at"], s["to"]) for s in sw]])
    return {"ilv": ilv, "nontrivial": st.get("overlap_steps", 0) > 0, "policy": scn["policy"]["kind"],
            "cluster": scn.get("cluster"), "threads": len(scn["threads"]), "steps": st.get("total_steps", 0),
            "preemptions": st.get("preemptions", 0), "lock_blocks": st.get("lock_blocks", 0),
            "overlap_steps": st.get("overlap_steps", 0), "site_hits": st.get("site_hits", {}),
            "both_missed_cache": st.get("both_missed_cache", 0), "counter_ids": st.get("counter_ids", 0),
            "caller_killed": st.get("caller_killed", 0), "kill_not_reached": st.get("caller_kill_planned_not_reached", 0),
            "digest": st.get("digest"), "norm_cache": scn.get("norm_cache"), "sweep": bool(scn.get("sweep")),
            "instr": scn.get("granularity") == "instr"}


def coverage(oks, tier):
    from collections import Counter
    pol = Counter(r["summary"]["policy"] for r in oks)
    clu = Counter(r["summary"]["cluster"] for r in oks)
    distinct = {r["summary"]["ilv"] for r in oks}
    nontrivial = {r["summary"]["ilv"] for r in oks if r["summary"]["nontrivial"]}
    sites = Counter()
    for r in oks:
        sites.update(r["summary"]["site_hits"])
    samples = []
    for r in oks:
        if "scenario" in r and len(samples) < 3:
            samples.append({"seed": r["seed"], "scenario": r["scenario"],
                            "switches": (r["result"].get("switches") or [])[:12],
                            "segments": (r["result"].get("segments") or [])[:12],
                            "violations": r["violations"][:1]})
    return {
        "evaluations": len(oks),
        "distinct_nontrivial": len(nontrivial),
        "distinct_interleavings": len(distinct),
        "rule": "one evaluation = one seeded scenario (retort configuration, 2-3 thread programs of facade calls over a "
                "cluster of colliding types, scheduling policy) executed with real threads under the baton scheduler; "
                "distinct = hash of (scenario, sequence of (from-thread, file:line, to-thread) at every context switch); "
                "non-trivial = at least one line step was executed while two or more facade calls were in flight",
        "samples": samples,
        "simulated_time": "none: adaptix reads no clock; logical steps are reported instead",
        "logical_steps": sum(r["summary"]["steps"] for r in oks),
        "faults_fired": {
            "preemption": sum(r["summary"]["preemptions"] for r in oks),
            "blocked_on_simulated_lock": sum(r["summary"]["lock_blocks"] for r in oks),
            "runs_with_overlapping_requests": sum(1 for r in oks if r["summary"]["nontrivial"]),
            "caller_thread_interrupted_mid_request": sum(r["summary"].get("caller_killed", 0) for r in oks),
            "caller_interrupt_planned_but_request_already_served": sum(r["summary"].get("kill_not_reached", 0) for r in oks),
            "scale_scenarios_(caches_of_100s_to_1000s_of_entries)": clu.get("scale", 0) + clu.get("datascale", 0),
        },
        "policies": dict(pol), "clusters": dict(clu),
        "runs_at_opcode_granularity_in_hot_files": sum(1 for r in oks if r["summary"].get("instr")),
        "complete_single_preemption_sweep_runs": sum(1 for r in oks if r["summary"].get("sweep")),
        "reach_probes": {**{k: sites.get(k, 0) for k in probe_sites()},
                         "unavailable": [k for k, v in probe_sites().items() if v is None],
                         "both_threads_missed_facade_cache": sum(r["summary"]["both_missed_cache"] for r in oks),
                         "counter_ids_observed": sum(r["summary"]["counter_ids"] for r in oks)},
        "components": {"real": ["all of adaptix", "CPython threads", "dict / lru_cache / linecache"],
                       "stubbed": ["every lock adaptix owns (SimLock)", "threading.Event (SimEvent)",
                                   "the choice of which thread runs next",
                                   "interrupt delivery to one caller (raised from a PY_START monitoring callback)"]},
    }
