"""C20 helpers: reachability of mutable containers, declared as-is positions, the hostile client."""
import collections
import dataclasses
import io

import attrs

from . import pools

MUT = (list, dict, set, bytearray, collections.deque, io.BytesIO)
SCR = "__scrambled__"


def is_model(o):
    t = type(o)
    return (dataclasses.is_dataclass(o) and not isinstance(o, type)) or attrs.has(t) or t is pools.KwModel or (
        pools.PM is not None and isinstance(o, pools.PM))


def children(o):
    if isinstance(o, dict):
        for k, v in o.items():
            yield k
            yield v
    elif isinstance(o, (list, tuple, set, frozenset, collections.deque)):
        yield from o
    elif dataclasses.is_dataclass(o) and not isinstance(o, type):
        for f in dataclasses.fields(o):
            yield getattr(o, f.name, None)
    elif attrs.has(type(o)):
        for a in attrs.fields(type(o)):
            yield getattr(o, a.name, None)
    elif is_model(o):
        yield from vars(o).values()


def reach(o, acc=None, seen=None):
    """id -> object for every mutable container / model instance reachable from o."""
    acc = {} if acc is None else acc
    seen = set() if seen is None else seen
    stack = [o]
    while stack:
        x = stack.pop()
        if id(x) in seen:
            continue
        seen.add(id(x))
        if isinstance(x, MUT) or is_model(x):
            acc[id(x)] = x
        stack.extend(children(x))
    return acc


_DEFAULT_IDS = None
_DEFAULT_IDS_ALL = None


def is_plain_literal(o, depth=0):
    """Builtin containers (exact types) of builtin scalars, to any depth: the values the property's own mechanism says
    are 'rendered as literals ... inside the function body', i.e. built anew by each call. The test is on the value
    alone and independent of adaptix."""
    if depth > 20:
        return False
    t = type(o)
    if o is None or o is Ellipsis or t in (bool, int, str, bytes, bytearray):
        return True
    if t is float:
        return o == o and o not in (float("inf"), float("-inf"))
    if t in (list, tuple, set, frozenset):
        return all(is_plain_literal(x, depth + 1) for x in o)
    if t is dict:
        return all(is_plain_literal(k, depth + 1) and is_plain_literal(v, depth + 1) for k, v in o.items())
    return False



def _collect_defaults(keep):
    acc = {}
    for v in vars(pools).values():
        if not isinstance(v, type):
            continue
        if hasattr(v, "_field_defaults"):
            for d in v._field_defaults.values():
                if keep(d):
                    reach(d, acc)
        if dataclasses.is_dataclass(v):
            for f in dataclasses.fields(v):
                if f.default is not dataclasses.MISSING and keep(f.default):
                    reach(f.default, acc)
        if attrs.has(v):
            for a in attrs.fields(v):
                if not isinstance(a.default, attrs.Factory) and keep(a.default):
                    reach(a.default, acc)
        if pools.PM is not None and isinstance(v, type) and issubclass(v, pools.PM):
            for fld in v.model_fields.values():
                if keep(fld.default):
                    reach(fld.default, acc)
    return acc


def declared_default_ids(everything=False):
    """Containers that are a model's *own* declared default value and cannot be written as a literal: the model's
    constructor itself would share them and adaptix can only pass them through, so that is not aliasing introduced by
    adaptix. Plain literal defaults (is_plain_literal) are NOT excused: the property's mechanism renders them per call.

    everything=True: every declared default object, literal or not. Python itself shares these between the instances
    the *client* constructs, so the hostile client never scrambles them (it would be corrupting its own classes)."""
    global _DEFAULT_IDS, _DEFAULT_IDS_ALL  # noqa: PLW0603
    if everything:
        if _DEFAULT_IDS_ALL is None:
            _DEFAULT_IDS_ALL = _collect_defaults(lambda d: True)
        return _DEFAULT_IDS_ALL
    if _DEFAULT_IDS is None:
        _DEFAULT_IDS = _collect_defaults(lambda d: not is_plain_literal(d))
    return _DEFAULT_IDS


def asis_roots(op, arg, recipes):  # noqa: C901, PLR0911, PLR0912
    """Sub-objects of the argument that the documentation declares as passed as is
    (Any, object, values of collected extra data, as-is conversion fall-through)."""
    kind = op["op"]
    t = op.get("t")
    load = kind == "load" or (kind == "call" and "d" in op)
    if "conv" in op or kind == "convert":
        roots = []
        for x in reach(arg).values():
            if isinstance(x, pools.SrcOuter):
                roots.append(x.anyv)
        return roots
    if t in ("Any", "object"):
        return [arg]
    if t == "ListAny":
        return list(arg) if isinstance(arg, (list, tuple)) else []
    if t == "DictStrAny":
        return list(arg.values()) if isinstance(arg, dict) else []
    if t == "WithAny":
        if load:
            if not isinstance(arg, dict):
                return []
            lst = arg.get("lst")
            return [arg.get("anyf"), arg.get("objf"), *(lst if isinstance(lst, list) else [])]
        return [arg.anyf, arg.objf, *arg.lst]
    collect = "nm_extra_collect" in recipes
    if t == "WithExtra5" and "nm_extra_paths" in recipes and load and isinstance(arg, dict):
        # laid out with a nested level ("head": {"a": ...}); extra data is not collected on loading
        lb, e = arg.get("labels"), arg.get("extra")
        return [arg.get("meta"), *(lb.values() if isinstance(lb, dict) else []), *(e.values() if isinstance(e, dict) else [])]
    if t == "WithExtra4":
        # e1, e2 are typed Any: whatever ends up there is passed as is
        if load:
            return [v for k, v in arg.items() if k != "a"] if isinstance(arg, dict) else []
        return [arg.e1, arg.e2]
    if t in ("WithExtra2", "WithExtra3"):
        if load:
            if not isinstance(arg, dict):
                return []
            if collect:
                return [v for k, v in arg.items() if k != "a"]
            return [x for k in ("e1", "e2") if isinstance(arg.get(k), dict) for x in arg[k].values()]
        return [*arg.e1.values(), *arg.e2.values()]
    if t == "WithExtra":
        # `extra: Dict[str, Any]`: its values are Any (as is) whether it is an ordinary field or the extra target
        if load:
            if not isinstance(arg, dict):
                return []
            if collect:
                return [v for k, v in arg.items() if k != "a"]
            e = arg.get("extra")
            return list(e.values()) if isinstance(e, dict) else []
        return list(arg.extra.values())
    if t == "WithExtra5":
        # meta: Any, labels / extra: Dict[str, Any] -> meta, the values of labels and of extra are as is
        if load:
            if not isinstance(arg, dict):
                return []
            out = [arg.get("meta")]
            lb = arg.get("labels")
            out.extend(lb.values() if isinstance(lb, dict) else [])
            if collect:
                out.extend(v for k, v in arg.items() if k not in ("a", "meta", "labels"))
            else:
                e = arg.get("extra")
                out.extend(e.values() if isinstance(e, dict) else [])
            return out
        return [arg.meta, *arg.labels.values(), *arg.extra.values()]
    if t in ("SatModel", "SatOpt"):
        # `more: Dict[str, Any]`: values are Any; with the saturator recipe they are the untyped extra data
        if load:
            if not isinstance(arg, dict):
                return []
            if "nm_saturator" in recipes:
                return [v for k, v in arg.items() if k != "a"]
            e = arg.get("more")
            return list(e.values()) if isinstance(e, dict) else []
        return list(arg.more.values())
    if t == "KwModel" and collect:
        if load:
            return [v for k, v in arg.items() if k != "a"] if isinstance(arg, dict) else []
        return list(arg.kwargs.values())
    return []


def allowed_shared(op, arg, recipes):
    acc = {}
    for r in asis_roots(op, arg, recipes):
        reach(r, acc)
    return acc


def exc_payload_roots(e, depth=0):
    """Values a client can reach from an exception adaptix raised: dataclass fields of load errors, children of
    groups, the cause chain."""
    if e is None or depth > 8:
        return
    if dataclasses.is_dataclass(e):
        for f in dataclasses.fields(e):
            if f.name != "exceptions":
                yield getattr(e, f.name, None)
    if isinstance(e, BaseExceptionGroup):
        for s in e.exceptions:
            yield from exc_payload_roots(s, depth + 1)
    if e.__cause__ is not None:
        yield from exc_payload_roots(e.__cause__, depth + 1)


def scramble(o, exclude, hard=False):
    """The hostile client: mutate in place every mutable container reachable from o. hard=True empties the
    container first (a client that reuses a result as its own scratch space)."""
    n = 0
    objs = [x for i, x in reach(o).items() if i not in exclude]
    for x in objs:
        try:
            if hard and isinstance(x, (list, dict, set, bytearray, collections.deque)):
                x.clear()
            if isinstance(x, list):
                x.insert(0, SCR)
            elif isinstance(x, dict):
                x[SCR] = SCR
            elif isinstance(x, set):
                x.add(SCR)
            elif isinstance(x, bytearray):
                x.extend(b"!")
            elif isinstance(x, collections.deque):
                x.appendleft(SCR)
            elif isinstance(x, io.BytesIO):
                x.seek(0, 2)
                x.write(b"!")
                x.seek(0)
            elif is_model(x):
                names = ([f.name for f in dataclasses.fields(x)] if dataclasses.is_dataclass(x)
                         else [a.name for a in attrs.fields(type(x))] if attrs.has(type(x)) else list(vars(x)))
                for a in names:
                    setattr(x, a, SCR)
            else:
                continue
            n += 1
        except Exception:  # noqa: BLE001, S112
            continue
    return n
