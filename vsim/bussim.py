"""C09 — provider-chain protocol simulation with decline / delegate / crash faults (DESIGN 7).

Providers are simulated peers, their responses are the seeded fault plan, the consultation log is
the history, and the oracle is an independent linear chain-of-responsibility interpreter.
"""
# ruff: noqa: UP006
import abc
import random
from dataclasses import dataclass
from typing import Annotated, ForwardRef, List, NewType, Optional

from adaptix import (
    AdornedRetort,
    CannotProvide,
    Chain,
    DebugTrail,
    P,
    Provider,
    ProviderNotFoundError,
    Retort,
    bound,
    create_loc_stack_checker,
    dumper,
    loader,
)
from adaptix._internal.morphing.request_cls import DebugTrailRequest, DumperRequest, LoaderRequest, StrictCoercionRequest
from adaptix._internal.provider.facade.provider import bound_by_any
from adaptix._internal.provider.request_checkers import AlwaysTrueRequestChecker
from adaptix._internal.provider.value_provider import ValueProvider

from .common import digest
from .sig import sig_value

NAME = "bussim"
_PRED_OBJS = {}     # predicate objects of the current scenario: items naming the same predicate share one object
KEY_NEEDS_MINIMISATION = False   # the violation class is decided mechanically at execution time
STABLE_KEY_FIELDS = ("class", "type", "dir", "retort")


# ------------------------------------------------------------------------------------------------
# universe

class A:
    pass


class B:
    pass


class Abs(abc.ABC):
    @abc.abstractmethod
    def f(self):
        ...


class C1(Abs):
    def f(self):
        pass


@dataclass
class M:
    x: int
    a: A
    s: str


@dataclass
class M2:
    """Twin of M: its fields are equal *locations* (name, type, default) under another parent."""
    x: int
    a: A
    s: str


@dataclass
class Both:
    m: M
    m2: M2


@dataclass
class RN:
    """Self-referential model: its nested requests go through a recursion stub."""
    v: A
    next: Optional["RN"] = None


ListA = List[A]
NtA = NewType("NtA", A)
AnnA = Annotated[A, "m"]
# request types whose origin is not the class itself: an exact-class predicate for A must not match them, the
# builtin tail unwraps them and re-sends the request for A from the top of the recipe
FWD = ForwardRef("NoSuchName")     # a request type that cannot be normalised: no exact-type predicate matches it
TYPES = {"A": A, "B": B, "C1": C1, "int": int, "str": str, "M": M, "ListA": ListA, "RN": RN,
         "OptA": Optional[A], "AnnA": AnnA, "NtA": NtA, "Fwd": FWD, "M2": M2, "Both": Both}
TNAME = {A: "A", B: "B", C1: "C1", int: "int", str: "str", M: "M", ListA: "ListA", Abs: "Abs", RN: "RN",
         Optional[RN]: "OptRN", type(None): "None", Optional[A]: "OptA", AnnA: "AnnA", NtA: "NtA", FWD: "Fwd", M2: "M2", Both: "Both"}
MODELS = {"M": (M, [("x", "int"), ("a", "A"), ("s", "str")]), "RN": (RN, [("v", "A"), ("next", "OptRN")]),
          "M2": (M2, [("x", "int"), ("a", "A"), ("s", "str")]), "Both": (Both, [("m", "M"), ("m2", "M2")])}
M_FIELDS = MODELS["M"][1]


class BareRetort(AdornedRetort):
    """The facade without any builtin provider: all-decline must end in ProviderNotFoundError."""


# stack element: (type name, field id or None, kind of location: "T" top-level, "F" field, "G" generic parameter)

def _last(st):
    return st[-1]


PREDS = {
    # name: (factory of the adaptix predicate, matcher over the model's stack, groupable by the router)
    "A": (lambda: A, lambda st: _last(st)[0] == "A", True),
    "B": (lambda: B, lambda st: _last(st)[0] == "B", True),
    "C1": (lambda: C1, lambda st: _last(st)[0] == "C1", True),
    "int": (lambda: int, lambda st: _last(st)[0] == "int", True),
    "str": (lambda: str, lambda st: _last(st)[0] == "str", True),
    "M": (lambda: M, lambda st: _last(st)[0] == "M", True),
    "P[A]": (lambda: P[A], lambda st: _last(st)[0] == "A", True),
    "P[int]": (lambda: P[int], lambda st: _last(st)[0] == "int", True),
    "ListA": (lambda: List[A], lambda st: _last(st)[0] == "ListA", False),
    # the bare origin of a generic: matches every parametrisation (here the only list type of the universe)
    "list": (lambda: list, lambda st: _last(st)[0] == "ListA", True),
    "Abs": (lambda: Abs, lambda st: _last(st)[0] == "C1", False),
    "ANY": (lambda: P.ANY, lambda st: True, False),
    "P[A,B]": (lambda: P[A, B], lambda st: _last(st)[0] in ("A", "B"), False),
    "P[A]|P[int]": (lambda: P[A] | P[int], lambda st: _last(st)[0] in ("A", "int"), False),
    "~P[A]": (lambda: ~P[A], lambda st: _last(st)[0] != "A", False),
    "~P[int]": (lambda: ~P[int], lambda st: _last(st)[0] != "int", False),
    "x": (lambda: "x", lambda st: _last(st)[1] == "x", False),
    "a": (lambda: "a", lambda st: _last(st)[1] == "a", False),
    "re[as]": (lambda: "[as]", lambda st: _last(st)[1] in ("a", "s"), False),
    "P[M].x": (lambda: P[M].x, lambda st: len(st) >= 2 and st[-2][0] == "M" and _last(st)[1] == "x", False),
    "P[M].a": (lambda: P[M].a, lambda st: len(st) >= 2 and st[-2][0] == "M" and _last(st)[1] == "a", False),
    "P[M][str]": (lambda: P[M][str], lambda st: len(st) >= 2 and st[-2][0] == "M" and _last(st)[0] == "str", False),
    "P[int]&P.x": (lambda: P[int] & P.x, lambda st: _last(st)[0] == "int" and _last(st)[1] == "x", False),
    "P[A]^P.a": (lambda: P[A] ^ P.a, lambda st: (_last(st)[0] == "A") != (_last(st)[1] == "a"), False),
    "P[ListA][A]": (lambda: P[List[A]][A], lambda st: len(st) >= 2 and st[-2][0] == "ListA" and _last(st)[0] == "A", False),
    "RN": (lambda: RN, lambda st: _last(st)[0] == "RN", True),
    "None": (lambda: None, lambda st: _last(st)[0] == "None", True),
    "M2": (lambda: M2, lambda st: _last(st)[0] == "M2", True),
    "P[M2].x": (lambda: P[M2].x, lambda st: len(st) >= 2 and st[-2][0] == "M2" and _last(st)[1] == "x", False),
    "P[Both].m2": (lambda: P[Both].m2, lambda st: len(st) >= 2 and st[-2][0] == "Both" and _last(st)[1] == "m2", False),
    "next": (lambda: "next", lambda st: _last(st)[1] == "next", False),
    "P[RN].next": (lambda: P[RN].next, lambda st: len(st) >= 2 and st[-2][0] == "RN" and _last(st)[1] == "next", False),
    "P[RN].v": (lambda: P[RN].v, lambda st: len(st) >= 2 and st[-2][0] == "RN" and _last(st)[1] == "v", False),
    # n-ary XOR is parity
    "P[A]^P.a^P[M].a": (lambda: P[A] ^ P.a ^ P[M].a,
                        lambda st: ((_last(st)[0] == "A") + (_last(st)[1] == "a")
                                    + (len(st) >= 2 and st[-2][0] == "M" and _last(st)[1] == "a")) % 2 == 1, False),
    "P[int]^P.x^ANY": (lambda: P[int] ^ P.x ^ P.ANY,
                       lambda st: ((_last(st)[0] == "int") + (_last(st)[1] == "x") + 1) % 2 == 1, False),
    # patterns derived from a base pattern object that has been built (used as a predicate) before
    "base(P[M]).x": (lambda: _derived("P[M]base", lambda: P[M]).x,
                     lambda st: len(st) >= 2 and st[-2][0] == "M" and _last(st)[1] == "x", False),
    "base(P[M].a).x": (lambda: _derived("P[M].abase", lambda: P[M].a).x, lambda st: False, False),
    "base(P[RN]).next": (lambda: _derived("P[RN]base", lambda: P[RN]).next,
                         lambda st: len(st) >= 2 and st[-2][0] == "RN" and _last(st)[1] == "next", False),
}


def _derived(key, make):
    """A base pattern object shared within the scenario; it is turned into a checker (as passing it to a
    provider would) before anything is derived from it."""
    if key not in _PRED_OBJS:
        _PRED_OBJS[key] = make()
        create_loc_stack_checker(_PRED_OBJS[key])
    return _PRED_OBJS[key]


def pred_match(name, st):
    """'any:p1;p2' is a provider bound to several predicates at once (the facade's bound_by_any)."""
    if name.startswith("any:"):
        return any(PREDS[p][1](st) for p in name[4:].split(";"))
    return PREDS[name][1](st)


def item_match(it, st):
    return pred_match(it["pred"], st) and (not it.get("pred2") or PREDS[it["pred2"]][1](st))


GROUPABLE = [k for k, v in PREDS.items() if v[2]]
NONGROUPABLE = [k for k, v in PREDS.items() if not v[2]]
KINDS = ["plain", "plain", "first", "last", "answer", "decline", "decline", "terminal", "delegate", "crash", "optprobe",
         "optprobe", "optset"]


# ------------------------------------------------------------------------------------------------
# the simulated peer

class Faulty(Provider):
    """Marker provider whose handler does what the plan says and records every consultation."""

    def __init__(self, idx, mode, log):
        self.idx, self.mode, self.log = idx, mode, log

    def get_request_handlers(self):
        def handler(mediator, request):
            self.log.append((req_key(request), self.idx))
            mode = self.mode
            if mode == "decline":
                raise CannotProvide
            if mode == "terminal":
                raise CannotProvide(is_terminal=True)
            if mode == "crash":
                raise ZeroDivisionError(self.idx)
            if mode == "delegate":
                nxt = mediator.provide_from_next()
                tagd = _mark("d", self.idx)
                return lambda x: tagd(nxt(x))
            if mode == "optprobe":
                strict = mediator.mandatory_provide(StrictCoercionRequest(loc_stack=request.loc_stack))
                trail = mediator.mandatory_provide(DebugTrailRequest(loc_stack=request.loc_stack))
                return _mark(f"o{int(strict)}{trail.name[0]}", self.idx)
            return _mark("a", self.idx)
        return [(LoaderRequest, AlwaysTrueRequestChecker(), handler),
                (DumperRequest, AlwaysTrueRequestChecker(), handler)]


def req_key(request):
    d = "L" if isinstance(request, LoaderRequest) else "D"
    st = []
    for i, loc in enumerate(request.loc_stack):
        kind = "F" if hasattr(loc, "field_id") else "G" if hasattr(loc, "generic_pos") else "T"
        try:
            tn = TNAME.get(loc.type, repr(loc.type))
        except TypeError:
            tn = repr(loc.type)
        st.append((tn, getattr(loc, "field_id", None), kind))
    return (d, tuple(st))


_CALLS = []   # invocations of marker functions during the current call: (tag, idx, kind of argument)


def _argkind(x):
    if isinstance(x, list):
        return f"list{len(x)}"
    return "none" if x is None else type(x).__name__


def _mark(tag, i):
    """User function of a marker: tags list tokens (so composition order and multiplicity show in the
    output), passes every other value through unchanged, and records that it ran."""
    def fn(x):
        _CALLS.append((tag, i, _argkind(x)))
        return x + [[tag, i]] if isinstance(x, list) else x
    return fn


_BUILT = {}         # marker providers made by loader()/dumper(), by item index


def pred_obj(name):
    if name not in _PRED_OBJS:
        _PRED_OBJS[name] = PREDS[name][0]()
    return _PRED_OBJS[name]


def build_item(it, log, inner=None):
    """inner: dict idx -> retort object; filled with the inner retorts built here, and consulted first
    (so that a derived inner retort can be placed into a second outer recipe)."""
    kind = it["kind"]
    i = it["idx"]
    if it["pred"].startswith("any:"):
        return bound_by_any([pred_obj(p) for p in it["pred"][4:].split(";")], Faulty(i, kind, log))
    pred = pred_obj(it["pred"])
    if kind in ("plain", "first", "last"):
        if i in _BUILT:
            return _BUILT[i]        # the very same provider object at a second position of the full recipe
        ch = {"plain": None, "first": Chain.FIRST, "last": Chain.LAST}[kind]
        tag = {"plain": "p", "first": "f", "last": "l"}[kind]
        mk = loader if it["dir"] == "L" else dumper
        _BUILT[i] = mk(pred, _mark(tag, i), ch)
        return _BUILT[i]
    if kind == "retort":
        if inner is not None and i in inner:
            obj = inner[i]
        else:
            obj = build_retort(it["sub"], log)
            if inner is not None:
                inner[i] = obj
        return obj if it["pred"] == "ANY" and it.get("unbound") else bound(pred, obj)
    if kind == "optset":
        # an option override bound to a location: answers StrictCoercionRequest only
        return bound(pred, ValueProvider(StrictCoercionRequest, it["value"]))
    if it.get("pred2"):
        # two nested bounds: the bounding provider has to AND its predicate with the inner one
        return bound(pred, bound(pred_obj(it["pred2"]), Faulty(i, kind, log)))
    return bound(pred, Faulty(i, kind, log))


def build_retort(spec, log, inner=None):
    """spec: {full, opts, instance: [items], classes: [[items] (own class), [items] (parent)]}"""
    base = Retort if spec["full"] else BareRetort
    cls = base
    for level, items in enumerate(reversed(spec.get("classes", []))):
        cls = type(f"R{level}", (cls,), {"recipe": [build_item(it, log, inner) for it in items]})
    kw = {"strict_coercion": spec["opts"]["strict_coercion"],
          "debug_trail": DebugTrail[spec["opts"].get("debug_trail", "ALL")]}
    if spec.get("mixin"):
        # a second branch of the class hierarchy: MRO is (own chain ..., mixin, base)
        mix = type("Mix", (base,), {"recipe": [build_item(it, log, inner) for it in spec["mixin"]]})
        cls = type("Final", (cls, mix), {})
    return cls(recipe=[build_item(it, log, inner) for it in spec["instance"]], **kw)


# ------------------------------------------------------------------------------------------------
# reference model: linear chain of responsibility

class NotFound(Exception):
    pass


class Terminal(Exception):
    pass


class Crash(Exception):
    pass


_BUILTIN_CACHE = {}


def builtin_scalar(tname, direction, strict):
    """The builtin tail for int/str is used as a black box taken from a marker-free Retort."""
    k = (tname, direction, strict)
    if k not in _BUILTIN_CACHE:
        r = Retort(strict_coercion=strict)
        _BUILTIN_CACHE[k] = r.get_loader(TYPES[tname]) if direction == "L" else r.get_dumper(TYPES[tname])
    return _BUILTIN_CACHE[k]


def flatten(spec):
    """instance recipe, then class recipes by MRO (own class first)."""
    items = list(spec["instance"])
    for cls_items in spec.get("classes", []):
        items.extend(cls_items)
    items.extend(spec.get("mixin") or [])
    return items


class Model:
    def __init__(self, reconsult=False, max_consult=100000):
        self.cells = {}
        self.log = []
        self.reconsult = reconsult   # mirror of the implementation's behaviour after a failed delegation
        self.n = 0
        self.max = max_consult

    def serve(self, spec, st, d, off=0):
        """A fresh request (off == 0) for a location that already occurs below it on the stack is answered
        by a late-bound stub of the answer to its first occurrence (recursion resolution)."""
        if off != 0:
            return self._serve(spec, st, d, off)
        key = (id(spec), d, st[-1])
        if list(st[:-1]).count(st[-1]) >= 1:
            cell = self.cells.setdefault(key, {})
            return lambda x, cell=cell: cell["fn"](x)
        fn = self._serve(spec, st, d, 0)
        cell = self.cells.pop(key, None)
        if cell is not None:
            cell["fn"] = fn
        return fn

    def _serve(self, spec, st, d, off=0):  # noqa: C901, PLR0912
        items = flatten(spec)
        for i in range(off, len(items)):
            it = items[i]
            kind = it["kind"]
            if kind in ("plain", "first", "last") and it["dir"] != d:
                continue
            if kind == "optset" or not item_match(it, st):
                continue
            idx = it["idx"]
            if kind == "plain":
                return _mark("p", idx)
            if kind in ("first", "last"):
                try:
                    nxt = self.serve(spec, st, d, i + 1)
                except NotFound:
                    if self.reconsult:
                        continue
                    raise
                cur = _mark("f" if kind == "first" else "l", idx)
                if kind == "first":
                    return lambda x, cur=cur, nxt=nxt: nxt(cur(x))
                return lambda x, cur=cur, nxt=nxt: cur(nxt(x))
            if kind == "retort":
                try:
                    return self.serve(it["sub"], st, d, 0)
                except NotFound:
                    continue
            self.n += 1
            if self.n > self.max:
                raise RecursionError
            self.log.append(((d, tuple(st)), idx))
            if kind == "decline":
                continue
            if kind == "terminal":
                raise Terminal
            if kind == "crash":
                raise Crash(idx)
            if kind == "delegate":
                try:
                    nxt = self.serve(spec, st, d, i + 1)
                except NotFound:
                    if self.reconsult:
                        continue
                    raise
                tagd = _mark("d", idx)
                return lambda x, nxt=nxt, tagd=tagd: tagd(nxt(x))
            if kind == "optprobe":
                return _mark(f"o{int(self.strict(spec, st))}{self.opt(spec, st, 'debug_trail')[0]}", idx)
            return _mark("a", idx)
        return self.tail(spec, st, d)

    def opt(self, spec, st, name):
        """Option requests walk the same recipe: a retort in the recipe whose predicate matches the
        location serves them from its own options; otherwise the retort's own option applies."""
        for it in flatten(spec):
            if it["kind"] == "retort" and pred_match(it["pred"], st):
                return self.opt(it["sub"], st, name)
            if it["kind"] == "optset" and name == "strict_coercion" and item_match(it, st):
                return it["value"]
        return spec["opts"].get(name, "ALL" if name == "debug_trail" else True)

    def strict(self, spec, st):
        return self.opt(spec, st, "strict_coercion")

    def tail(self, spec, st, d):  # noqa: C901
        if not spec["full"]:
            raise NotFound
        t = st[-1][0]
        if t in ("int", "str", "None"):
            return builtin_scalar(t, d, self.strict(spec, st))
        if t in MODELS:
            cls, fields = MODELS[t]
            subs = {}
            failed = False
            for fname, ftype in fields:
                try:
                    subs[fname] = self.serve(spec, [*st, (ftype, fname, "F")], d, 0)
                except (NotFound, Terminal):
                    failed = True
            if failed:
                # the builtin model provider asks for its field loaders with mandatory_provide*: a missing one
                # is a *terminal* decline of the model request
                raise Terminal
            if d == "L":
                def load_m(data):
                    if not isinstance(data, dict):
                        raise _ModelLoadError
                    return cls(**{f: subs[f](data[f]) for f, _ in fields})
                return load_m
            return lambda obj: {f: subs[f](getattr(obj, f)) for f, _ in fields}
        if t in ("OptRN", "OptA"):
            try:
                el = self.serve(spec, [*st, (t[3:], None, "G")], d, 0)
            except NotFound:
                raise Terminal from None
            return lambda x: None if x is None else el(x)
        if t == "Fwd":
            raise Terminal      # the builtin forward-reference provider declines terminally when it cannot evaluate
        if t in ("AnnA", "NtA"):
            # unwrapping providers re-send the request with the last type replaced (same location otherwise);
            # a failure there is an ordinary decline of the unwrapping provider, behind which nothing else serves
            try:
                return self.serve(spec, [*st[:-1], ("A", st[-1][1], st[-1][2])], d, 0)
            except Terminal:
                raise NotFound from None
        if t == "ListA":
            try:
                el = self.serve(spec, [*st, ("A", None, "G")], d, 0)
            except NotFound:
                raise Terminal from None
            if d == "L":
                def load_l(data):
                    if not isinstance(data, list):
                        raise _ModelLoadError
                    return [el(x) for x in data]
                return load_l
            return lambda data: [el(x) for x in data]
        raise NotFound


class _ModelLoadError(Exception):
    pass


# ------------------------------------------------------------------------------------------------
# workload

def token(tname, d):
    if tname == "M":
        return {"x": [], "a": [], "s": []} if d == "L" else M([], [], [])
    if tname == "ListA":
        return [[], []]
    if tname == "M2":
        return {"x": [], "a": [], "s": []} if d == "L" else M2([], [], [])
    if tname == "Both":
        return ({"m": {"x": [], "a": [], "s": []}, "m2": {"x": [], "a": [], "s": []}} if d == "L"
                else Both(M([], [], []), M2([], [], [])))
    if tname == "RN":
        return ({"v": [], "next": {"v": [], "next": {"v": [], "next": None}}} if d == "L"
                else RN([], RN([], RN([], None))))
    return []


def norm_out(v):
    """Canonical value: sequences as lists (dumped iterables may be tuples)."""
    if isinstance(v, (list, tuple)):
        return [norm_out(x) for x in v]
    if isinstance(v, dict):
        return {k: norm_out(x) for k, x in v.items()}
    if isinstance(v, M):
        return {"__M__": {f: norm_out(getattr(v, f)) for f, _ in M_FIELDS}}
    if isinstance(v, RN):
        return {"__RN__": {"v": norm_out(v.v), "next": norm_out(v.next)}}
    if isinstance(v, M2):
        return {"__M2__": {f: norm_out(getattr(v, f)) for f, _ in M_FIELDS}}
    if isinstance(v, Both):
        return {"__Both__": {"m": norm_out(v.m), "m2": norm_out(v.m2)}}
    return v


def run_real(retort, tname, d):
    try:
        fn = retort.get_loader(TYPES[tname]) if d == "L" else retort.get_dumper(TYPES[tname])
    except ProviderNotFoundError:
        return ["notfound"]
    except ZeroDivisionError as e:
        return ["crash", e.args[0]]
    except RecursionError:
        return ["recursion"]
    except Exception as e:  # noqa: BLE001
        return ["exc", type(e).__name__, str(e)[:200]]
    del _CALLS[:]
    try:
        return ["ok", norm_out(fn(token(tname, d))), sorted(map(list, _CALLS))]
    except Exception:  # noqa: BLE001
        # how a call-time failure is wrapped (LoadError, AggregateLoadError around a TypeError, ...) is C04's
        # subject, not C09's: only "the composed function fails on the token" is compared
        return ["callfail"]


def run_model(spec, tname, d, reconsult=False):
    m = Model(reconsult=reconsult)
    try:
        fn = m.serve(spec, [(tname, None, "T")], d, 0)
    except (NotFound, Terminal):
        return m.log, ["notfound"]
    except Crash as e:
        return m.log, ["crash", e.args[0]]
    except RecursionError:
        return m.log, ["recursion"]
    del _CALLS[:]
    try:
        return m.log, ["ok", norm_out(fn(token(tname, d))), sorted(map(list, _CALLS))]
    except Exception:  # noqa: BLE001
        return m.log, ["callfail"]


# ------------------------------------------------------------------------------------------------
# scenario generation

def gen_items(rng, n, counter, depth=0):
    items = []
    mode = rng.random()
    for _ in range(n):
        r = rng.random()
        if mode < 0.35:       # combiner edges: mostly groupable, few separators
            pn = rng.choice(GROUPABLE) if r < 0.75 else rng.choice(NONGROUPABLE)
        elif mode < 0.5:      # tiny universe of exact types: repeats inside groups
            pn = rng.choice(["A", "int", "P[A]", "P[int]", "ANY", "~P[A]"])
        else:
            pn = rng.choice(GROUPABLE) if r < 0.5 else rng.choice(NONGROUPABLE)
        kind = rng.choice(KINDS)
        idx = counter[0]
        counter[0] += 1
        it = {"idx": idx, "pred": pn, "kind": kind}
        if kind == "optset":
            it["value"] = rng.random() < 0.5
        if kind in ("plain", "first", "last"):
            it["dir"] = "L" if rng.random() < 0.7 else "D"
        multi = rng.random() < 0.10
        if depth == 0 and rng.random() < 0.10:
            it["kind"] = "retort"
            it["unbound"] = rng.random() < 0.4
            if it["unbound"]:
                it["pred"] = "ANY"
            it["sub"] = {"full": rng.random() < 0.5,
                         "opts": {"strict_coercion": rng.random() < 0.5, "debug_trail": rng.choice(["ALL", "FIRST", "DISABLE"])},
                         "instance": gen_items(rng, rng.randint(1, 3), counter, 1), "classes": []}
        if depth == 0 and items and rng.random() < 0.07:
            prev = [x for x in items if x["kind"] in ("plain", "first", "last")]
            if prev:
                items.append(dict(rng.choice(prev)))     # the same provider object again (same idx)
        if multi and it["kind"] not in ("plain", "first", "last", "retort", "optset"):
            it["pred"] = "any:" + ";".join(rng.sample(sorted(PREDS), rng.randint(2, 3)))
        elif it["kind"] not in ("plain", "first", "last", "retort", "optset") and rng.random() < 0.08:
            it["pred2"] = rng.choice(sorted(PREDS))
        items.append(it)
    return items


def gen(seed, cfg=None):
    rng = random.Random(seed)
    counter = [0]
    n = rng.randint(1, 9)
    n_cls1 = rng.choice([0, 0, 0, 1, 2]) if n > 1 else 0
    n_cls2 = rng.choice([0, 0, 1]) if n_cls1 else 0
    n_inst = max(0, n - n_cls1 - n_cls2)
    spec = {"full": rng.random() < 0.55,
            "opts": {"strict_coercion": rng.random() < 0.5, "debug_trail": rng.choice(["ALL", "FIRST", "DISABLE"])},
            "instance": gen_items(rng, n_inst, counter),
            "classes": [c for c in (gen_items(rng, n_cls1, counter), gen_items(rng, n_cls2, counter)) if c]}
    if spec["classes"] and rng.random() < 0.3:
        spec["mixin"] = gen_items(rng, rng.randint(1, 2), counter)
    ext = gen_items(rng, rng.randint(1, 2), counter) if rng.random() < 0.3 else None
    if ext is not None and rng.random() < 0.3:
        reusable = [x for x in flatten(spec) if x["kind"] in ("plain", "first", "last")]
        if reusable:
            ext.append(dict(rng.choice(reusable)))       # extend() with a provider object the recipe already holds
    repl = None
    if rng.random() < 0.2:
        repl = rng.choice([{"strict_coercion": not spec["opts"]["strict_coercion"]},
                           {"debug_trail": rng.choice([d for d in ("ALL", "FIRST", "DISABLE") if d != spec["opts"]["debug_trail"]])}])
    inner_idx = [it["idx"] for it in flatten(spec) if it["kind"] == "retort"]
    inner_derive = None
    if inner_idx and rng.random() < 0.6:
        # a retort that already served as a provider is extended / replaced and placed into a second outer retort
        inner_derive = {"idx": rng.choice(inner_idx),
                        "extend": gen_items(rng, rng.randint(1, 2), counter, 1) if rng.random() < 0.6 else None,
                        "replace": None}
        if inner_derive["extend"] is None or rng.random() < 0.3:
            inner_derive["replace"] = "flip"
    return {"engine": "bussim", "seed": seed, "spec": spec, "extend": ext, "replace": repl, "inner_derive": inner_derive}


# ------------------------------------------------------------------------------------------------
# engine API

def refs_needed(scn):
    return []


def compute_ref(desc):
    raise ValueError(desc)


def derived_specs(scn):
    """(label, spec as the documented semantics of extend/replace define it)"""
    out = [("base", scn["spec"])]
    if scn.get("extend"):
        s = dict(scn["spec"])
        s["instance"] = [*scn["extend"], *scn["spec"]["instance"]]     # extend() prepends
        out.append(("extended", s))
    if scn.get("replace"):
        s = dict(scn["spec"])
        s["opts"] = {**scn["spec"]["opts"], **scn["replace"]}          # replace() changes only scalar options
        out.append(("replaced", s))
    idv = scn.get("inner_derive")
    if idv:
        def derive(items):
            res = []
            for it in items:
                if it["idx"] == idv["idx"] and it["kind"] == "retort":
                    sub = dict(it["sub"])
                    if idv.get("extend"):
                        sub["instance"] = [*idv["extend"], *sub["instance"]]
                    if idv.get("replace"):
                        sub["opts"] = {**sub["opts"], "strict_coercion": not sub["opts"]["strict_coercion"]}
                    it = {**it, "sub": sub}
                res.append(it)
            return res
        if any(it["idx"] == idv["idx"] and it["kind"] == "retort" for it in flatten(scn["spec"])):
            out.append(("inner-derived", _map_items(scn["spec"], derive)))
    return out


def execute(scn, refs):  # noqa: C901, PLR0912
    _PRED_OBJS.clear()
    _BUILT.clear()
    log = []
    built_inner = {}
    base = build_retort(scn["spec"], log, built_inner)
    retorts = {"base": base}
    if scn.get("extend"):
        retorts["extended"] = base.extend(recipe=[build_item(it, log) for it in scn["extend"]])
    if scn.get("replace"):
        retorts["replaced"] = base.replace(**{k: (DebugTrail[v] if k == "debug_trail" else v) for k, v in scn["replace"].items()})
    specs = dict(derived_specs(scn))
    idv = scn.get("inner_derive")
    if idv and "inner-derived" in specs and idv["idx"] in built_inner:
        r2 = built_inner[idv["idx"]]           # has already served as a provider inside `base`
        if idv.get("extend"):
            r2 = r2.extend(recipe=[build_item(it, log) for it in idv["extend"]])
        if idv.get("replace"):
            sub = next(it for it in flatten(scn["spec"]) if it["idx"] == idv["idx"])["sub"]
            r2 = r2.replace(strict_coercion=not sub["opts"]["strict_coercion"])
        retorts["inner-derived"] = build_retort(scn["spec"], log, {idv["idx"]: r2})
    else:
        specs.pop("inner-derived", None)
    violations = []
    stats = {"requests": 0, "consultations": 0, "declines_consumed": 0, "delegations": 0, "crashes": 0, "terminals": 0,
             "not_found": 0, "nested_requests": 0, "reconsult_known": 0}
    mode_of = {}
    _collect_modes(scn["spec"], mode_of)
    for it in [*(scn.get("extend") or []), *((scn.get("inner_derive") or {}).get("extend") or [])]:
        _collect_modes_item(it, mode_of)
    order = [*retorts, "base"]    # ... and the original again (must be unchanged by extend/replace)
    first_out = {}
    only = scn.get("only")
    for rep, label in enumerate(order):
        retort = retorts[label]
        for tname in TYPES:
            for d in ("L", "D"):
                if only and [tname, d] not in only:
                    continue
                del log[:]
                real_out = run_real(retort, tname, d)
                real_log = list(log)
                if rep == len(order) - 1:
                    # second pass over the original: facade caches answer; outcome must be unchanged
                    if real_out != first_out[("base", tname, d)]:
                        violations.append({"class": "original-changed", "retort": label, "type": tname, "dir": d,
                                           "expected": first_out[("base", tname, d)], "observed": real_out})
                    continue
                first_out[(label, tname, d)] = real_out
                model_log, model_out = run_model(specs[label], tname, d)
                stats["requests"] += 1
                stats["consultations"] += len(real_log)
                for _k, idx in real_log:
                    m = mode_of.get(idx)
                    stats["declines_consumed"] += m == "decline"
                    stats["delegations"] += m == "delegate"
                    stats["crashes"] += m == "crash"
                    stats["terminals"] += m == "terminal"
                stats["nested_requests"] += len({k for k, _ in real_log if len(k[1]) > 1})
                stats["not_found"] += real_out == ["notfound"]
                v = compare(real_log, real_out, model_log, model_out)
                if v is not None:
                    if v["class"] in ("consulted-twice", "consultation-mismatch"):
                        rlog, rout = run_model(specs[label], tname, d, reconsult=True)
                        if _by_key(rlog) == _by_key(real_log) and rout == real_out == model_out:
                            v["class"] = "reconsult-after-failed-delegation"
                            stats["reconsult_known"] += 1
                    v.update({"retort": label, "type": tname, "dir": d})
                    violations.append(v)
                bound_ = 4 * (_count_items(specs[label]) + 4) * 8
                if len(real_log) > bound_ and (v is None or v["class"] != "reconsult-after-failed-delegation"):
                    violations.append({"class": "liveness-bound", "retort": label, "type": tname, "dir": d,
                                       "expected": f"<= {bound_} consultations", "observed": len(real_log)})
        if len(violations) > 8:
            break
    return {"violations": violations, "stats": stats}


def _collect_modes(spec, out):
    for it in flatten(spec):
        _collect_modes_item(it, out)


def _collect_modes_item(it, out):
    out[it["idx"]] = it["kind"]
    if it["kind"] == "retort":
        _collect_modes(it["sub"], out)


def _count_items(spec):
    n = 0
    for it in flatten(spec):
        n += 1
        if it["kind"] == "retort":
            n += _count_items(it["sub"])
    return n


def _by_key(log):
    out = {}
    for k, idx in log:
        out.setdefault(_jkey(k), []).append(idx)
    return out


def _jkey(k):
    return k[0] + ":" + "/".join(f"{t}.{f or ''}.{g}" for t, f, g in k[1])


def compare(real_log, real_out, model_log, model_out):
    rk, mk = _by_key(real_log), _by_key(model_log)
    for key, seq in sorted(rk.items()):
        if len(set(seq)) != len(seq):
            return {"class": "consulted-twice", "request": key, "expected": mk.get(key), "observed": seq,
                    "model_outcome": model_out, "real_outcome": real_out}
    if rk != mk:
        key = next(k for k in sorted(set(rk) | set(mk)) if rk.get(k) != mk.get(k))
        return {"class": "consultation-mismatch", "request": key, "expected": mk.get(key), "observed": rk.get(key),
                "model_outcome": model_out, "real_outcome": real_out}
    if real_out != model_out:
        return {"class": "wrong-composition" if real_out[0] == model_out[0] == "ok" else "wrong-outcome",
                "expected": model_out, "observed": real_out}
    return None


# ------------------------------------------------------------------------------------------------
# minimisation, keys, coverage

def _map_items(spec, fn):
    s = dict(spec)
    s["instance"] = fn(spec["instance"])
    s["classes"] = [fn(c) for c in spec.get("classes", [])]
    s["classes"] = [c for c in s["classes"] if c]
    if spec.get("mixin"):
        s["mixin"] = fn(spec["mixin"]) or None
    return s


def candidates(scn):  # noqa: C901
    v_only = scn.get("only")
    if scn.get("extend"):
        yield {**scn, "extend": None}
    if scn.get("replace"):
        yield {**scn, "replace": None}
    if scn.get("inner_derive"):
        yield {**scn, "inner_derive": None}
    spec = scn["spec"]
    if spec.get("classes") or spec.get("mixin"):
        # move class recipes into the instance recipe (same flattened order)
        s = dict(spec)
        s["instance"] = flatten(spec)
        s["classes"] = []
        s["mixin"] = None
        yield {**scn, "spec": s}
    all_items = flatten(spec)
    for it in reversed(all_items):
        def drop(items, idx=it["idx"]):
            return [x for x in items if x["idx"] != idx]
        yield {**scn, "spec": _map_items(spec, drop)}
    for it in all_items:
        if it["kind"] == "retort":
            for sub in reversed(it["sub"]["instance"]):
                def drop_sub(items, outer=it["idx"], inner=sub["idx"]):
                    out = []
                    for x in items:
                        if x["idx"] == outer:
                            x = {**x, "sub": {**x["sub"], "instance": [y for y in x["sub"]["instance"] if y["idx"] != inner]}}
                        out.append(x)
                    return out
                yield {**scn, "spec": _map_items(spec, drop_sub)}
    if spec["full"]:
        yield {**scn, "spec": {**spec, "full": False}}
    if scn.get("extend") and len(scn["extend"]) > 1:
        for i in range(len(scn["extend"])):
            yield {**scn, "extend": [x for j, x in enumerate(scn["extend"]) if j != i]}
    if not v_only:
        return


def violation_class(result):
    v = result["violations"]
    return v[0]["class"] if v else None


def shape(scn):
    def sh(items):
        return [f"{it['kind']}:{it['pred']}" + (f"&&{it['pred2']}" if it.get("pred2") else "") + (f"[{','.join(sh(it['sub']['instance']))}]" if it["kind"] == "retort" else "")
                for it in items]
    return {"instance": sh(scn["spec"]["instance"]), "classes": [sh(c) for c in scn["spec"].get("classes", [])],
            "mixin": sh(scn["spec"]["mixin"]) if scn["spec"].get("mixin") else None,
            "extend": sh(scn["extend"]) if scn.get("extend") else None, "replace": bool(scn.get("replace")),
            "inner_derive": ({"extend": sh(scn["inner_derive"]["extend"] or []), "replace": bool(scn["inner_derive"]["replace"])}
                             if scn.get("inner_derive") else None),
            "full": scn["spec"]["full"]}


def prelim_key(scn, result):
    v = result["violations"][0]
    return {"class": v["class"], "type": v.get("type"), "dir": v.get("dir"), "retort": v.get("retort")}


def finding_key(scn, result, v=None):
    v = v or result["violations"][0]
    return {"class": v["class"], "type": v.get("type"), "dir": v.get("dir"), "retort": v.get("retort"), "shape": shape(scn)}


def summarize(scn, res):
    st = res.get("stats", {})
    return {"shape": digest(shape(scn)), "nontrivial": (st.get("declines_consumed", 0) + st.get("delegations", 0)) > 0,
            "stats": st, "n_items": _count_items(scn["spec"]), "full": scn["spec"]["full"],
            "has_extend": bool(scn.get("extend")), "has_replace": bool(scn.get("replace")),
            "has_classes": bool(scn["spec"].get("classes")),
            "has_inner": any(it["kind"] == "retort" for it in flatten(scn["spec"]))}


def coverage(oks, tier):
    from collections import Counter
    agg = Counter()
    for r in oks:
        agg.update(r["summary"]["stats"])
        for k in ("full", "has_extend", "has_replace", "has_classes", "has_inner"):
            agg[k] += bool(r["summary"][k])
    distinct = {r["summary"]["shape"] for r in oks}
    nontrivial = {r["summary"]["shape"] for r in oks if r["summary"]["nontrivial"]}
    samples = []
    for r in oks:
        if "scenario" in r and len(samples) < 3:
            samples.append({"seed": r["seed"], "scenario": r["scenario"], "violations": r["violations"][:1]})
    return {
        "evaluations": len(oks),
        "distinct_nontrivial": len(nontrivial),
        "distinct_recipe_shapes": len(distinct),
        "rule": ("one evaluation = one seeded recipe arrangement (1-9 marker providers over instance recipe, class recipes "
                 "along a retort-subclass MRO, optional extend()/replace(), optional inner retort) with a static fault plan "
                 "(answer / decline / terminal decline / delegate / crash / option probe), resolved for 7 request types x "
                 "loader/dumper on every derived retort and compared (consultation log per request + composed output) with "
                 "an independent linear chain-of-responsibility interpreter; distinct = (provider kind x predicate x "
                 "position, plan); non-trivial = at least one decline or delegation was consumed"),
        "samples": samples,
        "simulated_time": "none: adaptix reads no clock; logical steps are provider consultations",
        "logical_steps": agg["consultations"],
        "requests_resolved": agg["requests"],
        "faults_fired": {"decline": agg["declines_consumed"], "delegate_to_next": agg["delegations"],
                         "crash_in_provider": agg["crashes"], "terminal_decline": agg["terminals"],
                         "requests_ending_not_found": agg["not_found"]},
        "nested_request_keys": agg["nested_requests"],
        "recipes_with": {"builtin_tail": agg["full"], "extend": agg["has_extend"], "replace": agg["has_replace"],
                         "class_recipes": agg["has_classes"], "inner_retort": agg["has_inner"]},
        "components": {"real": ["BaseRetort/SearchingRetort/OperatingRetort/AdornedRetort", "request bus", "routers",
                                "provider wrappers (bound, Chain)", "builtin providers in the tail"],
                       "stubbed": ["marker providers (peers) whose responses follow the seeded plan"]},
    }


ASSUMPTIONS = [
    "the reference interpreter implements the documented linear semantics (first match in the order instance recipe, class "
    "recipes by MRO; extend prepends; replace changes only options; inner retort serves from its own recipe and options)",
    "consultations are observed only at fault-injecting marker providers; plain/chaining markers are observed through the "
    "composed output",
    "the builtin tail for int/str is taken as a black box from a marker-free Retort; plain classes have no builtin provider",
    "seeded search samples recipe arrangements; a clean batch is evidence, not proof",
]
