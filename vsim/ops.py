"""Operation vocabulary shared by the engines: facade calls on retort handles, addressed by pool names.

An op is a small JSON object. `World` executes ops against live retorts (the system under test);
`ref_desc` turns an op into a self-contained reference request; `compute_ref` answers such a
request on a freshly constructed retort (it is called in a pristine forked process image).
"""
import gc

from . import pools
from .sig import outcome, sig_exc


class World:
    def __init__(self, handle_descs, share=None):
        if share is not None:   # another client of the same retorts (a second thread); retorts it derives are its own
            self.hdesc, self.handles = list(share.hdesc), list(share.handles)
        else:
            self.hdesc = [dict(d) for d in handle_descs]
            self.handles = [pools.build_base(d) for d in handle_descs]
        self.callables = []   # per obtaining op: (callable or None, ref template)
        self.late = False

    # -- reference descriptors -----------------------------------------------------------------
    def ref_desc(self, op):
        kind = op["op"]
        if kind in ("load", "dump", "get_loader", "get_dumper", "get_converter", "convert"):
            d = {k: v for k, v in op.items() if k != "h"}
            d["flat"] = pools.flatten_handle(self.hdesc[op["h"]])
            d["late"] = self.late
            return d
        if kind == "call":
            tmpl = self.callables[op["c"]][1]
            if tmpl is None:
                return None
            d = dict(tmpl)
            d["late"] = tmpl["late"]
            if tmpl["op"] == "get_loader":
                d.update(op="load", d=op["d"])
            elif tmpl["op"] == "get_dumper":
                d.update(op="dump", o=op["o"])
            else:
                d.update(op="convert_call", o=op["o"])
            return d
        return None

    # -- execution -----------------------------------------------------------------------------
    def run(self, op):  # noqa: C901, PLR0911, PLR0912
        """Returns (outcome signature, result object, argument object)."""
        kind = op["op"]
        if "h" in op and (op["h"] >= len(self.handles) or self.handles[op["h"]] is None):
            # the retort this op is about was never made (the replace()/extend() that makes it failed or was interrupted)
            if kind in ("replace", "extend"):
                self.hdesc.append(None)
                self.handles.append(None)
            elif kind.startswith("get_"):
                self.callables.append((None, None))
            return ["skipped"], None, None
        if kind == "load":
            arg = pools.datum(op["d"])
            out, res = outcome(self.handles[op["h"]].load, arg, pools.TYPES[op["t"]])
            return out, res, arg
        if kind == "dump":
            arg = pools.obj(op["o"])
            if op.get("infer"):
                out, res = outcome(self.handles[op["h"]].dump, arg)      # type inferred from the object
            else:
                out, res = outcome(self.handles[op["h"]].dump, arg, pools.TYPES[op["t"]])
            return out, res, arg
        if kind == "get_loader":
            out, fn = outcome(self.handles[op["h"]].get_loader, pools.TYPES[op["t"]])
            self.callables.append((fn if out[0] == "ok" else None, self.ref_desc(op)))
            if out[0] != "ok":
                return out, None, None
            return ["callable", loader_battery(fn, op["t"])], fn, None
        if kind == "get_dumper":
            out, fn = outcome(self.handles[op["h"]].get_dumper, pools.TYPES[op["t"]])
            self.callables.append((fn if out[0] == "ok" else None, self.ref_desc(op)))
            if out[0] != "ok":
                return out, None, None
            return ["callable", dumper_battery(fn, op["t"])], fn, None
        if kind == "get_converter":
            src, dst, _ = pools.CONVERTERS[op["conv"]]
            out, fn = outcome(_get_converter, self.handles[op["h"]], op["conv"], op.get("rcp"), op.get("rcp_shared", False))
            self.callables.append((fn if out[0] == "ok" else None, self.ref_desc(op)))
            if out[0] != "ok":
                return out, None, None
            return ["callable", converter_battery(fn, op["conv"])], fn, None
        if kind == "convert":
            _, dst, _ = pools.CONVERTERS[op["conv"]]
            arg = pools.obj(op["o"])
            out, res = outcome(_convert, self.handles[op["h"]], op["conv"], arg, op.get("rcp"), op.get("rcp_shared", False))
            return out, res, arg
        if kind == "call":
            fn, tmpl = self.callables[op["c"]]
            if fn is None:
                return ["skipped"], None, None
            arg = pools.datum(op["d"]) if "d" in op else pools.obj(op["o"])
            out, res = outcome(fn, arg)
            return out, res, arg
        if kind in ("replace", "extend"):
            h = op["h"]
            step = ["replace", op["opts"]] if kind == "replace" else ["extend", op["recipe"], op.get("as", "list")]
            base = self.hdesc[h]["base"]
            try:
                new = pools.apply_step(self.handles[h], base, step)     # (no signature of a whole retort object)
            except BaseException as e:  # noqa: BLE001
                self.hdesc.append(None)       # keep the numbering of later handles: ops on this one are skipped
                self.handles.append(None)
                return ["exc", sig_exc(e)], None, None
            nd = dict(self.hdesc[h])
            nd["chain"] = [*nd.get("chain", []), step]
            self.hdesc.append(nd)
            self.handles.append(new)
            return ["handle", len(self.handles) - 1], new, None
        if kind == "bulk":
            # scale: n distinct cheap types requested one after the other from one retort (loaders, or dumpers)
            h = self.handles[op["h"]]
            bad = []
            for i in range(op["start"], op["start"] + op["n"]):
                getter = h.get_dumper if op.get("dump") else h.get_loader
                o, _ = outcome(getter, pools.bulk_type(i))
                if o[0] != "ok" and len(bad) < 3:
                    bad.append([i, o])
            return ["bulk", op["n"], bad], None, None
        if kind == "bulk_call":
            # scale in the data dimension: one loader called with n distinct valid data, each result checked
            fn, _tmpl = self.callables[op["c"]]
            if fn is None:
                return ["skipped"], None, None
            g = pools.BULK_DATA[op["gen"]]
            bad = []
            for i in range(op["start"], op["start"] + op["n"]):
                datum, expected = g(i)
                o, res = outcome(fn, datum)
                if (o[0] != "ok" or res != expected) and len(bad) < 3:
                    bad.append([i, o])
            return ["bulk", op["n"], bad], None, None
        if kind == "bind_late":
            pools.bind_late()
            self.late = True
            return ["done"], None, None
        if kind == "gc":
            gc.collect()
            return ["done"], None, None
        raise ValueError(op)


def _get_converter(retort, cname, rcp, shared=False):
    """cname: converter pool entry; rcp: name of a per-call recipe (get_converter(..., recipe=[...])) or None;
    shared: the same provider objects on every call"""
    src, dst, _ = pools.CONVERTERS[cname]
    if cname in pools.IMPL_STUBS:
        # impl_converter from a stub with extra parameters; the battery keeps calling it with one argument
        stub, extra = pools.IMPL_STUBS[cname]
        fn = retort.impl_converter(stub) if rcp is None else retort.impl_converter(recipe=pools.conv_recipe(rcp, shared))(stub)
        return lambda x: fn(x, *extra())
    if rcp is None:
        return retort.get_converter(src, dst)
    return retort.get_converter(src, dst, recipe=pools.conv_recipe(rcp, shared))


def _convert(retort, cname, arg, rcp, shared=False):
    if cname in pools.IMPL_STUBS:
        return _get_converter(retort, cname, rcp, shared)(arg)
    dst = pools.CONVERTERS[cname][1]
    if rcp is None:
        return retort.convert(arg, dst)
    return retort.convert(arg, dst, recipe=pools.conv_recipe(rcp, shared))


def loader_battery(fn, tname):
    return [[d, outcome(fn, pools.datum(d))[0]] for d in pools.battery(tname)]


def dumper_battery(fn, tname):
    return [[o, outcome(fn, pools.obj(o))[0]] for o in pools.dump_battery(tname)]


def converter_battery(fn, cname):
    return [[o, outcome(fn, pools.obj(o))[0]] for o in pools.CONVERTERS[cname][2]]


def compute_ref(desc):
    """The same call on a retort that has never seen anything else, in a pristine process image."""
    if desc.get("late"):
        pools.bind_late()
    try:
        retort = pools.build_flat(desc["flat"])
    except Exception as e:  # noqa: BLE001
        return ["exc", sig_exc(e)]
    kind = desc["op"]
    if kind == "load":
        return outcome(retort.load, pools.datum(desc["d"]), pools.TYPES[desc["t"]])[0]
    if kind == "dump":
        if desc.get("infer"):
            return outcome(retort.dump, pools.obj(desc["o"]))[0]
        return outcome(retort.dump, pools.obj(desc["o"]), pools.TYPES[desc["t"]])[0]
    if kind == "get_loader":
        out, fn = outcome(retort.get_loader, pools.TYPES[desc["t"]])
        return out if out[0] != "ok" else ["callable", loader_battery(fn, desc["t"])]
    if kind == "get_dumper":
        out, fn = outcome(retort.get_dumper, pools.TYPES[desc["t"]])
        return out if out[0] != "ok" else ["callable", dumper_battery(fn, desc["t"])]
    if kind == "get_converter":
        src, dst, _ = pools.CONVERTERS[desc["conv"]]
        out, fn = outcome(_get_converter, retort, desc["conv"], desc.get("rcp"), desc.get("rcp_shared", False))
        return out if out[0] != "ok" else ["callable", converter_battery(fn, desc["conv"])]
    if kind == "convert":
        _, dst, _ = pools.CONVERTERS[desc["conv"]]
        return outcome(_convert, retort, desc["conv"], pools.obj(desc["o"]), desc.get("rcp"), desc.get("rcp_shared", False))[0]
    if kind == "convert_call":
        src, dst, _ = pools.CONVERTERS[desc["conv"]]
        out, fn = outcome(_get_converter, retort, desc["conv"], desc.get("rcp"), desc.get("rcp_shared", False))
        if out[0] != "ok":
            return ["skipped"]
        return outcome(fn, pools.obj(desc["o"]))[0]
    raise ValueError(desc)


def static_ref_descs(handle_descs, ops):
    """Reference descriptors of an op list, computed without executing anything (pure bookkeeping):
    mirrors World's handle/callable tables."""
    hdesc = [dict(d) for d in handle_descs]
    callables = []
    late = False
    out = []
    for op in ops:
        kind = op["op"]
        d = None
        if kind in ("load", "dump", "get_loader", "get_dumper", "get_converter", "convert"):
            d = {k: v for k, v in op.items() if k != "h"}
            d["flat"] = pools.flatten_handle(hdesc[op["h"]])
            d["late"] = late
            if kind.startswith("get_"):
                callables.append(d)
        elif kind == "call":
            tmpl = callables[op["c"]]
            d = dict(tmpl)
            if tmpl["op"] == "get_loader":
                d.update(op="load", d=op["d"])
            elif tmpl["op"] == "get_dumper":
                d.update(op="dump", o=op["o"])
            else:
                d.update(op="convert_call", o=op["o"])
        elif kind in ("replace", "extend"):
            step = ["replace", op["opts"]] if kind == "replace" else ["extend", op["recipe"]]
            nd = dict(hdesc[op["h"]])
            nd["chain"] = [*nd.get("chain", []), step]
            hdesc.append(nd)
        elif kind == "bind_late":
            late = True
        out.append(d)
    return out
