"""Deterministic thread scheduler (DESIGN 4): real threads, baton passing, every context switch
decided by a policy at `sys.monitoring` LINE events inside adaptix / adaptix-generated code.

Exactly one simulated thread runs at any time; all others are parked on their gate. The choice of
who runs is the only thing that is not real.
"""
import _thread
import hashlib
import random
import sys
import threading

from .common import HarnessError, is_adaptix_file, short_file

mon = sys.monitoring
TOOL = 3  # a free tool id (0 debugger, 1 coverage, 2 profiler, 5 optimizer are reserved names)

_REAL_LOCK = _thread.allocate_lock
_REAL_RLOCK = threading.RLock


class SimAbort(BaseException):
    """Raised inside parked threads when a run is torn down."""


class Deadlock(Exception):
    pass


# ------------------------------------------------------------------------------------------------
# policies. A policy is a pure function of its parameters and of the scheduler's observable state.

class Policy:
    kind = "?"

    def first(self, s):
        return 0

    def at_step(self, s, tid):
        """Called at each yield point of the running thread; returns the thread to run next."""
        return tid

    def after_stop(self, s, tid):
        """The running thread finished or blocked; choose among s.runnable() (non-empty)."""
        return s.runnable()[0]


class Solo(Policy):
    kind = "solo"


class Sweep1(Policy):
    """Thread t runs k of its own steps, then every other thread runs to completion, then t resumes."""
    kind = "sweep1"

    def __init__(self, t, k):
        self.t, self.k, self.fired = t, k, False

    def first(self, s):
        return self.t

    def at_step(self, s, tid):
        if tid == self.t and not self.fired and s.steps[tid] >= self.k:
            others = [x for x in s.runnable() if x != tid]
            if others:
                self.fired = True
                return others[0]
        return tid

    def after_stop(self, s, tid):
        r = s.runnable()
        others = [x for x in r if x != self.t]
        return others[0] if others else r[0]


class PCT(Policy):
    """Priority schedule with d-1 change points (Burckhardt et al.)."""
    kind = "pct"

    def __init__(self, prios, change_points, own_points=()):
        self.prio = list(prios)
        self.cps = sorted(change_points)
        self.own = {(t, k) for t, k in own_points}   # change point when thread t reaches its own k-th step
        self.low = 0

    def _best(self, s):
        r = s.runnable()
        return max(r, key=lambda x: self.prio[x])

    def first(self, s):
        return self._best(s)

    def at_step(self, s, tid):
        while self.cps and s.total_steps >= self.cps[0]:
            self.cps.pop(0)
            self.low -= 1
            self.prio[tid] = self.low
        if self.own and (tid, s.steps[tid]) in self.own:
            self.own.discard((tid, s.steps[tid]))
            self.low -= 1
            self.prio[tid] = self.low
        return self._best(s)

    def after_stop(self, s, tid):
        return self._best(s)


class Walk(Policy):
    kind = "walk"

    def __init__(self, seed, p):
        self.rng = random.Random(seed)
        self.p = p

    def first(self, s):
        return self.rng.choice(s.runnable())

    def at_step(self, s, tid):
        if self.rng.random() < self.p:
            r = s.runnable()
            if len(r) > 1:
                return self.rng.choice([x for x in r if x != tid])
        return tid

    def after_stop(self, s, tid):
        return self.rng.choice(s.runnable())


class RoundRobin(Policy):
    kind = "rr"

    def __init__(self, q):
        self.q = q
        self.n = 0

    def at_step(self, s, tid):
        self.n += 1
        if self.n >= self.q:
            self.n = 0
            r = s.runnable()
            later = [x for x in r if x > tid]
            return later[0] if later else r[0]
        return tid

    def after_stop(self, s, tid):
        self.n = 0
        r = s.runnable()
        later = [x for x in r if x > tid]
        return later[0] if later else r[0]


class Replay(Policy):
    """segments: [[tid, n], ...] — run tid for n of its yield points (-1: until it stops)."""
    kind = "replay"

    def __init__(self, segments):
        self.segs = [list(x[:2]) for x in segments]
        self.i = 0
        self.n = 0

    def first(self, s):
        self._skip(s)
        return self.segs[self.i][0] if self.i < len(self.segs) else s.runnable()[0]

    def _skip(self, s):
        r = s.runnable()
        while self.i < len(self.segs) and self.segs[self.i][0] not in r:
            self.i += 1
        self.n = 0

    def at_step(self, s, tid):
        if self.i >= len(self.segs) or self.segs[self.i][0] != tid:
            return tid
        self.n += 1
        lim = self.segs[self.i][1]
        if lim >= 0 and self.n >= lim:
            self.i += 1
            self._skip(s)
            if self.i < len(self.segs):
                return self.segs[self.i][0]
        return tid

    def after_stop(self, s, tid):
        if self.i < len(self.segs) and self.segs[self.i][0] == tid:
            self.i += 1
        self._skip(s)
        return self.segs[self.i][0] if self.i < len(self.segs) else s.runnable()[0]


def _hot_step(hot, f1, f2, fallback):
    """Site-uniform sampling: pick a distinct hot site (file:line) by f1, then one of its visits by f2,
    so that a line executed once per call weighs as much as a line inside a hot loop."""
    if not hot:
        return fallback
    sites = sorted(hot)
    visits = hot[sites[min(len(sites) - 1, int(f1 * len(sites)))]]
    return visits[min(len(visits) - 1, int(f2 * len(visits)))]


def make_policy(p, solo):
    """solo: per thread {'steps': n, 'hot': {site: [own step indices]}} measured on a pristine image."""
    kind = p["kind"]
    steps = [max(1, s.get("steps", 1)) for s in solo]
    if kind == "solo":
        return Solo()
    if kind == "sweep1":
        t = p["t"]
        if "k" in p:
            k = p["k"]
        else:
            k = 1 + int(p["frac"] * max(1, steps[t] - 1))
            if p.get("mode") == "hot":
                k = _hot_step(solo[t].get("hot"), p["frac"], p.get("f2", 0.0), k)
        return Sweep1(t, k)
    if kind == "pct":
        total = max(2, sum(steps))
        cps = p["cps"] if "cps" in p else [1 + int(f * (total - 1)) for f in p.get("cp_fracs", [])]
        own = list(p.get("own", []))
        for t, f1, f2 in p.get("cp_hot", []):
            own.append([t, _hot_step(solo[t].get("hot"), f1, f2, 1 + int(f1 * max(1, steps[t] - 1)))])
        return PCT(p["prios"], cps, own)
    if kind == "walk":
        return Walk(p["seed"], p["p"])
    if kind == "rr":
        return RoundRobin(p["q"])
    if kind == "replay":
        return Replay(p["segments"])
    raise ValueError(p)


# ------------------------------------------------------------------------------------------------

class Scheduler:
    def __init__(self, policy, max_steps=400_000, wall_timeout=60.0, probe=None, keep_log=False):
        self.policy = policy
        self.max_steps = max_steps
        self.wall_timeout = wall_timeout
        self.gates = []
        self.status = []          # 'ready' | 'blocked' | 'done'
        self.steps = []           # yield points per thread
        self.bodies = []
        self.ident2tid = {}
        self.current = None
        self.total_steps = 0
        self.segments = []        # actual schedule taken: [tid, n, why]
        self.switches = []        # {from, to, at, kind}
        self._seg_n = 0
        self.h = hashlib.sha256()
        self.done = threading.Event()
        self.failure = None       # ('deadlock'|'step-budget', info)
        self.blocked_on = {}
        self.probe = probe        # callable(sched, tid, code, line) evaluated at every switch (reach probes)
        self.visits = {}
        self.lock_blocks = 0
        self.log = [] if keep_log else None
        self.in_flight = set()
        self.timed_out = set()
        self.hot_files = frozenset()
        self.instr = False        # additionally yield at every bytecode instruction of instr_files
        self.instr_files = frozenset()
        self.hot = {}             # tid -> {site: [own step indices]} for sites in hot_files
        self.watch = {}           # site -> probe name (reach probes)
        self.watch_hits = {}      # (probe name, tid) -> count
        self.overlap_steps = 0
        # crash of one caller: at the k-th function entry (PY_START in adaptix code) of thread t, while one of its ops is
        # in flight, raise kill["exc"] there; entries are counted per thread whenever count_entries is set
        self.kill = None          # {"t": tid, "k": n, "exc": exception class}
        self.count_entries = False
        self.entries = []
        self.killed = None        # {"t", "k", "at"} once delivered
        self.cur_op = {}          # tid -> index of the op in flight (maintained by the engine)

    # -- setup -----------------------------------------------------------------------------------
    def add_thread(self, fn):
        tid = len(self.gates)
        self.gates.append(threading.Semaphore(0))
        self.status.append("ready")
        self.steps.append(0)
        self.entries.append(0)

        def body():
            self.gates[tid].acquire()
            self.ident2tid[_thread.get_ident()] = tid
            try:
                if self.failure is None:
                    fn()
            except SimAbort:
                pass
            finally:
                self.ident2tid.pop(_thread.get_ident(), None)
                self._stopped(tid, "done")

        self.bodies.append(threading.Thread(target=body, daemon=True, name=f"sim-{tid}"))
        return tid

    def runnable(self):
        return [t for t, st in enumerate(self.status) if st == "ready"]

    def cur_tid(self):
        return self.ident2tid.get(_thread.get_ident())

    def _on_start(self, code, offset):
        if not is_adaptix_file(code.co_filename):
            return mon.DISABLE
        tid = self.ident2tid.get(_thread.get_ident())
        if tid is None or tid not in self.in_flight:
            return None
        self.entries[tid] += 1
        kl = self.kill
        if kl is not None and self.killed is None and tid == kl["t"] and self.entries[tid] == kl["k"]:
            self.killed = {"t": tid, "k": kl["k"], "at": f"{short_file(code.co_filename)}:{code.co_name}",
                           "op_index": self.cur_op.get(tid)}
            self.h.update(f"{tid}:kill@{self.killed['at']};".encode())
            raise kl["exc"](f"simulated interrupt of caller thread {tid} at function entry #{kl['k']}")
        return None

    # -- the seam --------------------------------------------------------------------------------
    def _on_line(self, code, line):
        fn = code.co_filename
        if not is_adaptix_file(fn):
            return mon.DISABLE
        tid = self.ident2tid.get(_thread.get_ident())
        if tid is None:
            return None
        self.total_steps += 1
        self.steps[tid] += 1
        self._seg_n += 1
        sf = short_file(fn)
        site = f"{sf}:{line}"
        self.h.update(f"{tid}:{site};".encode())
        if sf in self.hot_files:
            v = self.hot.setdefault(tid, {}).setdefault(site, [])
            if len(v) < 64:
                v.append(self.steps[tid])
        if self.log is not None:
            self.log.append((tid, site))
        if site in self.watch:
            k = (self.watch[site], tid)
            self.watch_hits[k] = self.watch_hits.get(k, 0) + 1
        if len(self.in_flight) > 1:
            self.overlap_steps += 1
        if self.total_steps > self.max_steps:
            self._fail("step-budget", {"steps": self.total_steps})
            self._park_forever(tid)
        nxt = self.policy.at_step(self, tid)
        if nxt != tid:
            self._switch(tid, nxt, site, code, line, "preempt")
        return None

    def _switch(self, frm, to, site, code=None, line=None, kind="preempt"):
        self.segments.append([frm, self._seg_n, kind])
        self._seg_n = 0
        if self.probe is not None:
            self.probe(self, frm, to, site, kind)
        self.switches.append({"from": frm, "to": to, "at": site, "kind": kind})
        self.current = to
        self.gates[to].release()
        self.gates[frm].acquire()
        if self.failure is not None:
            raise SimAbort

    def _stopped(self, tid, why):
        """Thread finished (why='done')."""
        self.status[tid] = why
        self.segments.append([tid, self._seg_n, "finish"])
        self._seg_n = 0
        if self.failure is not None:
            return
        r = self.runnable()
        if not r:
            timed = sorted(t for t, o in self.blocked_on.items() if t in getattr(o, "timed", ()))
            if timed:
                t = timed[0]
                self.timed_out.add(t)
                del self.blocked_on[t]
                self.status[t] = "ready"
                r = self.runnable()
        if not r:
            if any(st == "blocked" for st in self.status):
                self._fail("deadlock", self._wait_graph())
            self.done.set()
            return
        nxt = self.policy.after_stop(self, tid)
        self.switches.append({"from": tid, "to": nxt, "at": "<finish>", "kind": "finish"})
        self.current = nxt
        self.gates[nxt].release()

    def _fail(self, kind, info):
        if self.failure is None:
            self.failure = (kind, info)
        self.done.set()

    def _park_forever(self, tid):
        self.gates[tid].acquire()
        raise SimAbort

    def _wait_graph(self):
        return {str(t): {"waits_for_lock": lk.name, "owner": lk.owner}
                for t, lk in sorted(self.blocked_on.items())}

    # -- simulated locks -------------------------------------------------------------------------
    def sync_point(self, tid, site):
        """Acquiring a lock is a scheduling point of its own (two acquisitions on one source line must be
        separable); it is counted and logged like a line step and is always a 'hot' site."""
        self.total_steps += 1
        self.steps[tid] += 1
        self._seg_n += 1
        self.h.update(f"{tid}:{site};".encode())
        if self.log is not None:
            self.log.append((tid, site))
        v = self.hot.setdefault(tid, {}).setdefault(site, [])
        if len(v) < 64:
            v.append(self.steps[tid])
        if len(self.in_flight) > 1:
            self.overlap_steps += 1
        if self.total_steps > self.max_steps:
            self._fail("step-budget", {"steps": self.total_steps})
            self._park_forever(tid)
        nxt = self.policy.at_step(self, tid)
        if nxt != tid:
            self._switch(tid, nxt, site, kind="preempt")

    def block_on(self, tid, lock):
        self.lock_blocks += 1
        self.status[tid] = "blocked"
        self.blocked_on[tid] = lock
        r = self.runnable()
        if not r:
            # nothing can run: a timed wait times out (simulated time jumps), otherwise it is a deadlock
            timed = sorted(t for t, o in self.blocked_on.items() if t in getattr(o, "timed", ()))
            if timed:
                t = timed[0]
                self.timed_out.add(t)
                del self.blocked_on[t]
                self.status[t] = "ready"
                r = self.runnable()
                if t == tid:
                    return
        if not r:
            self._fail("deadlock", self._wait_graph())
            self._park_forever(tid)
        nxt = self.policy.after_stop(self, tid)
        self._switch(tid, nxt, f"<lock {lock.name}>", kind="block")

    def unblock_waiters(self, lock):
        for t, lk in list(self.blocked_on.items()):
            if lk is lock:
                del self.blocked_on[t]
                self.status[t] = "ready"

    # -- opcode granularity (thorough tier): check-then-act inside one source line can be split -----
    def _on_instruction(self, code, offset):
        tid = self.ident2tid.get(_thread.get_ident())
        if tid is None:
            return None
        self.total_steps += 1
        self.steps[tid] += 1
        self._seg_n += 1
        sf = short_file(code.co_filename)
        site = f"{sf}@{code.co_name}+{offset}"
        self.h.update(f"{tid}:{site};".encode())
        if self.log is not None:
            self.log.append((tid, site))
        v = self.hot.setdefault(tid, {}).setdefault(site, [])
        if len(v) < 16:
            v.append(self.steps[tid])
        if len(self.in_flight) > 1:
            self.overlap_steps += 1
        if self.total_steps > self.max_steps:
            self._fail("step-budget", {"steps": self.total_steps})
            self._park_forever(tid)
        nxt = self.policy.at_step(self, tid)
        if nxt != tid:
            self._switch(tid, nxt, site, kind="preempt")
        return None

    def _instr_codes(self):
        """Code objects of the hot files (functions, methods, nested functions)."""
        out, seen = [], set()

        def walk(code):
            if id(code) in seen:
                return
            seen.add(id(code))
            out.append(code)
            for c in code.co_consts:
                if hasattr(c, "co_code"):
                    walk(c)

        for mod in list(sys.modules.values()):
            f = getattr(mod, "__file__", None)
            if not f or short_file(f) not in self.instr_files or not is_adaptix_file(f):
                continue
            for v in list(vars(mod).values()):
                objs = [v]
                if isinstance(v, type):
                    objs = [x for x in vars(v).values()]
                for o in objs:
                    o = getattr(o, "__func__", o)
                    o = getattr(o, "__wrapped__", o)
                    c = getattr(o, "__code__", None)
                    if c is not None and short_file(c.co_filename) in self.instr_files:
                        walk(c)
        return out

    # -- run -------------------------------------------------------------------------------------
    def run(self):
        if not self.gates:
            return
        mon.use_tool_id(TOOL, "vsim")
        try:
            mon.register_callback(TOOL, mon.events.LINE, self._on_line)
            if self.kill is not None or self.count_entries:
                mon.register_callback(TOOL, mon.events.PY_START, self._on_start)
                mon.set_events(TOOL, mon.events.LINE | mon.events.PY_START)
            else:
                mon.set_events(TOOL, mon.events.LINE)
            if self.instr:
                mon.register_callback(TOOL, mon.events.INSTRUCTION, self._on_instruction)
                for c in self._instr_codes():
                    try:
                        mon.set_local_events(TOOL, c, mon.events.INSTRUCTION)
                    except Exception:  # noqa: BLE001, S110
                        pass
            mon.restart_events()
            for t in self.bodies:
                t.start()
            first = self.policy.first(self)
            self.current = first
            self.gates[first].release()
            ok = self.done.wait(self.wall_timeout)
            mon.set_events(TOOL, 0)
            mon.register_callback(TOOL, mon.events.LINE, None)
            mon.register_callback(TOOL, mon.events.PY_START, None)
        finally:
            mon.free_tool_id(TOOL)
        if not ok:
            raise HarnessError("scheduler wall timeout: a thread is stuck outside the simulator's control")
        if self.failure is None:
            for t in self.bodies:
                t.join(5.0)

    def digest(self):
        return self.h.hexdigest()[:16]


# ------------------------------------------------------------------------------------------------

class SimLock:
    """Scheduler-aware lock: a thread that cannot take it blocks *in the scheduler*, so a parked owner
    cannot wedge the process and deadlock is detected rather than suffered."""
    reentrant = False

    def __init__(self, sched_ref, name="lock"):
        self._sched_ref = sched_ref
        self.name = name
        self.owner = None
        self.count = 0
        self.acquisitions = 0
        self.contended = 0

    def _me(self):
        s = self._sched_ref()
        tid = s.cur_tid() if s is not None else None
        return s, ("main" if tid is None else tid)

    def acquire(self, blocking=True, timeout=-1):
        s, me = self._me()
        if self.reentrant and self.owner == me:
            self.count += 1
            return True
        if s is not None and me != "main":
            s.sync_point(me, f"<acquire {self.name}>")
        while self.owner is not None:
            if me == "main" or s is None:
                raise HarnessError(f"SimLock {self.name} taken by {self.owner} while main thread needs it")
            if not blocking:
                return False
            self.contended += 1
            s.block_on(me, self)
        self.owner = me
        self.count = 1
        self.acquisitions += 1
        return True

    def release(self):
        s, me = self._me()
        if self.owner is None:
            raise RuntimeError("release unlocked lock")
        self.count -= 1
        if self.count > 0:
            return
        self.owner = None
        if s is not None:
            s.unblock_waiters(self)

    def locked(self):
        return self.owner is not None

    def __enter__(self):
        self.acquire()
        return True

    def __exit__(self, *a):
        self.release()


class SimRLock(SimLock):
    reentrant = True


class SimEvent:
    """Scheduler-aware threading.Event: a waiter blocks in the scheduler. A timed wait whose flag is never set
    returns False once nothing else can run (the simulated clock jumps to the timeout)."""

    def __init__(self, sched_ref, name="event"):
        self._sched_ref = sched_ref
        self.name = name
        self.owner = None
        self._flag = False
        self.timed = set()

    def is_set(self):
        return self._flag

    isSet = is_set

    def set(self):
        self._flag = True
        s = self._sched_ref()
        if s is not None:
            s.unblock_waiters(self)

    def clear(self):
        self._flag = False

    def wait(self, timeout=None):
        s = self._sched_ref()
        tid = s.cur_tid() if s is not None else None
        if self._flag or tid is None:
            return self._flag
        s.sync_point(tid, f"<wait {self.name}>")
        while not self._flag:
            if timeout is not None:
                self.timed.add(tid)
            s.block_on(tid, self)
            if tid in s.timed_out:
                s.timed_out.discard(tid)
                self.timed.discard(tid)
                return self._flag
        self.timed.discard(tid)
        return True


class LockPatcher:
    """Replaces every lock adaptix owns (module globals, attributes of module-global objects) by a
    SimLock, and makes locks that adaptix code creates from now on simulated too."""

    def __init__(self):
        self.sched = None
        self.locks = []
        self.replaced = []
        self.events = []
        self.factories_installed = False

    def _ref(self):
        return self.sched

    def _make(self, reentrant, name):
        lk = (SimRLock if reentrant else SimLock)(self._ref, name)
        self.locks.append(lk)
        return lk

    def install_factories(self):
        """Idempotent. Called *before* adaptix is imported, so that every lock adaptix code ever creates —
        at import time in class-level provider instances, during the warm-up in the parent, in retort
        constructors — is simulated, in every process image."""
        if self.factories_installed:
            return
        self.factories_installed = True

        def factory(reentrant):
            real = _REAL_RLOCK if reentrant else _REAL_LOCK

            def make(*a, **k):
                caller = sys._getframe(1).f_code.co_filename
                if is_adaptix_file(caller):
                    return self._make(reentrant, f"{short_file(caller)}:{sys._getframe(1).f_lineno}")
                return real(*a, **k)
            return make

        self.sim_lock_factory, self.sim_rlock_factory = factory(False), factory(True)
        threading.Lock = self.sim_lock_factory
        threading.RLock = self.sim_rlock_factory
        # a reference to the original threading.RLock function (e.g. the default factory of a
        # defaultdict(RLock)) still ends in threading._CRLock(): intercept there too, looking past
        # threading's own frames for the caller
        real_crlock = threading._CRLock

        def crlock(*a, **k):
            f = sys._getframe(1)
            while f is not None and f.f_code.co_filename == threading.__file__:
                f = f.f_back
            if f is not None and is_adaptix_file(f.f_code.co_filename):
                return self._make(True, f"{short_file(f.f_code.co_filename)}:{f.f_lineno}")
            return real_crlock(*a, **k)
        if real_crlock is not None:
            threading._CRLock = crlock
        real_event = threading.Event
        patcher = self

        class EventFactory:
            """threading.Event() called from adaptix code gives a SimEvent; isinstance checks keep working."""

            def __new__(cls, *a, **k):
                f = sys._getframe(1)
                if is_adaptix_file(f.f_code.co_filename):
                    ev = SimEvent(patcher._ref, f"{short_file(f.f_code.co_filename)}:{f.f_lineno}")
                    patcher.events.append(ev)
                    return ev
                return real_event(*a, **k)
        threading.Event = EventFactory

    def install(self):
        """Factories (if not yet) plus a scan for real locks that exist already."""
        self.install_factories()
        lock_t = type(_REAL_LOCK())
        rlock_t = type(_REAL_RLOCK())
        sim_lock_factory, sim_rlock_factory = self.sim_lock_factory, self.sim_rlock_factory
        for mname, mod in list(sys.modules.items()):
            if mod is None or not (mname == "adaptix" or mname.startswith("adaptix.")):
                continue
            for k, v in list(vars(mod).items()):
                if v is _REAL_LOCK or getattr(v, "__name__", None) == "allocate_lock":
                    setattr(mod, k, sim_lock_factory)
                elif v is _REAL_RLOCK:
                    setattr(mod, k, sim_rlock_factory)
                elif isinstance(v, (lock_t, rlock_t)):
                    setattr(mod, k, self._make(isinstance(v, rlock_t), f"{mname}.{k}"))
                    self.replaced.append(f"{mname}.{k}")
                elif not isinstance(v, (type, type(sys))) and not callable(v):
                    self._scan_obj(v, f"{mname}.{k}", lock_t, rlock_t)

    def _scan_obj(self, o, name, lock_t, rlock_t):
        names = []
        for cls in type(o).__mro__:
            names.extend(getattr(cls, "__slots__", ()) if not isinstance(getattr(cls, "__slots__", ()), str) else [cls.__slots__])
        d = getattr(o, "__dict__", None)
        if isinstance(d, dict):
            names.extend(d)
        for a in names:
            try:
                v = getattr(o, a)
            except Exception:  # noqa: BLE001, S112
                continue
            if isinstance(v, (lock_t, rlock_t)):
                try:
                    setattr(o, a, self._make(isinstance(v, rlock_t), f"{name}.{a}"))
                    self.replaced.append(f"{name}.{a}")
                except Exception:  # noqa: BLE001, S110
                    pass


GLOBAL_PATCHER = LockPatcher()


def install_lock_seam():
    GLOBAL_PATCHER.install_factories()
    return GLOBAL_PATCHER
