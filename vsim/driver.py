"""Batch driver shared by all engines: seeds → scenarios → runs → minimisation → replay files →
known-findings matching → evidence → exit code (DESIGN 3.5–3.7)."""
import os
import sys

from .common import (
    EXIT_HARNESS,
    EXIT_OK,
    EXIT_VIOLATION,
    HarnessError,
    canon,
    derive_seed,
    digest,
    evidence_dir,
    jdump,
    jload,
    load_known_findings,
    match_known,
    replay_path,
    tree_fingerprint,
    wall,
)
from .procpool import Zygote, run_batch

MIN_BUDGET = 400


def _run_task(engine):
    def task_fn(zyg, task):
        scn = task["scenario"] if "scenario" in task else engine.gen(task["seed"], task.get("cfg"))
        res = zyg.execute(scn)
        out = {"seed": scn.get("seed"), "violations": res["violations"], "stats": res.get("stats", {}),
               "summary": engine.summarize(scn, res)}
        if res["violations"] or task.get("keep"):
            out["scenario"] = scn
            out["result"] = res
        return out
    return task_fn


def _minimise_task(engine):
    def task_fn(zyg, task):
        scn, res = task["scenario"], task["result"]
        cls = engine.violation_class(res)
        tried = 0
        t_start = wall()
        max_wall = task.get("max_wall", 40.0)
        # make the schedule / fault trace explicit first, and check that it reproduces
        if hasattr(engine, "to_replay"):
            rs = engine.to_replay(scn, res)
            rr = zyg.execute(rs)
            tried += 1
            if engine.violation_class(rr) == cls:
                scn, res = rs, rr
            else:
                return {"scenario": scn, "result": res, "minimised": False, "tried": tried,
                        "note": f"explicit trace did not reproduce (got {engine.violation_class(rr)})"}
        progress = True
        while progress and tried < task.get("budget", MIN_BUDGET) and wall() - t_start < max_wall:
            progress = False
            for cand in engine.candidates(scn):
                if tried >= task.get("budget", MIN_BUDGET) or wall() - t_start > max_wall:
                    break
                tried += 1
                try:
                    r = zyg.execute(cand)
                except HarnessError:
                    continue
                if engine.violation_class(r) == cls:
                    scn, res = cand, r
                    if hasattr(engine, "to_replay") and scn.get("policy", {}).get("kind") == "replay":
                        pass
                    progress = True
                    break
        return {"scenario": scn, "result": res, "minimised": True, "tried": tried}
    return task_fn


def run_check(engine, prop, tier, master_seed, tasks, workers, level="exploration", extra_evidence=None,
              time_budget=None, min_keep=12):
    """tasks: list of {'seed': int} / {'scenario': ...}. Returns exit code."""
    t0 = wall()
    cfg = {"run_timeout": 100.0, "ref_timeout": 90.0}
    if time_budget:
        cfg["deadline"] = t0 + time_budget
    # a handful of samples are kept with their full traces for the evidence file
    for i in range(min(3, len(tasks))):
        tasks[i] = {**tasks[i], "keep": True}
    results, pstats = run_batch(engine, _run_task(engine), tasks, workers=workers, cfg=cfg)
    harness = [(i, r[1]) for i, r in enumerate(results) if r[0] == "harness"]
    skipped = sum(1 for r in results if r[0] == "skipped")
    oks = [r[1] for r in results if r[0] == "ok"]
    viol = [r for r in oks if r["violations"]]

    # ---- known findings: a listed finding must not mask another violation of the same run ----------
    known_entry, reorder = known_matcher(engine, prop)
    needs_min = getattr(engine, "KEY_NEEDS_MINIMISATION", True)

    # ---- minimise (distinct preliminary keys first) ---------------------------------------------
    reports = []
    if viol:
        seen = {}
        for r in viol:
            r["all_known"] = reorder(r["scenario"], r["result"])
            k = canon(engine.prelim_key(r["scenario"], r["result"]))
            seen.setdefault(k, []).append(r)
        order = []
        for k in sorted(seen):
            order.append(seen[k][0])
        for k in sorted(seen):
            order.extend(seen[k][1:])
        order.sort(key=lambda r: r["all_known"])     # runs with an unlisted violation get the minimiser first
        todo = [r for r in order if not r["all_known"]][:min_keep] + [r for r in order if r["all_known"]][:2]
        mres, _ = run_batch(engine, _minimise_task(engine),
                            [{"scenario": r["scenario"], "result": r["result"],
                              "max_wall": 40.0 if tier == "quick" else 180.0} for r in todo],
                            workers=workers, cfg={"run_timeout": 150.0, "ref_timeout": 90.0})
        for r, m in zip(todo, mres):
            if m[0] != "ok":
                harness.append((-1, f"minimiser: {m[1]}"))
                reports.append({"seed": r["seed"], "scenario": r["scenario"], "result": r["result"], "minimised": False})
            else:
                reports.append({"seed": r["seed"], **m[1], "original": r["scenario"]})
        for r in [x for x in order if not any(x is t for t in todo)]:
            reports.append({"seed": r["seed"], "scenario": r["scenario"], "result": r["result"], "minimised": False,
                            "unminimised_overflow": True})

    # ---- replay files, known findings ----------------------------------------------------------
    known_hit = {}
    unknown = []
    tree = tree_fingerprint()
    for rep in reports:
        all_known = reorder(rep["scenario"], rep["result"], rep.get("minimised", False))
        key = engine.finding_key(rep["scenario"], rep["result"])
        if not rep.get("minimised") and needs_min:
            key = {**key, "unminimised": True}
        rep["finding_key"] = key
        hit = known_entry(rep["scenario"], rep["result"], rep["result"]["violations"][0],
                          rep.get("minimised", False)) if all_known else None
        if hit is not None and len(known_hit.get(hit["what"], [])) >= 3:
            known_hit[hit["what"]].append({"path": known_hit[hit["what"]][0]["path"]})
            continue   # enough replay files for this listed finding
        path = replay_path(prop, rep["seed"])
        jdump({"property": prop, "engine": engine.NAME, "seed": rep["seed"], "tree": tree,
               "scenario": rep["scenario"], "violation": rep["result"]["violations"][0],
               "all_violations": rep["result"]["violations"][:10], "finding_key": key,
               "switches": rep["result"].get("switches"), "minimised": rep.get("minimised", False),
               "minimiser_runs": rep.get("tried"), "note": rep.get("note"),
               "original_scenario": rep.get("original")}, path)
        rep["path"] = path
        if hit is not None:
            known_hit.setdefault(hit["what"], []).append(rep)
        else:
            unknown.append(rep)

    # ---- evidence ------------------------------------------------------------------------------
    wall_s = wall() - t0
    cov = engine.coverage(oks, tier)
    cov.setdefault("evaluations", len(oks))
    cov["runs_per_hour"] = int(len(oks) / wall_s * 3600) if wall_s > 0 else 0
    cov["workers"] = workers
    cov["ref_forks"] = pstats["ref_forks"]
    cov["run_forks"] = pstats["run_forks"]
    cov["harness_errors"] = len(harness)
    cov["skipped_by_time_budget"] = skipped
    cov["known_findings_matched"] = {k: len(v) for k, v in known_hit.items()}
    cov["violating_runs"] = len(viol)
    cov["tree"] = tree
    if extra_evidence:
        cov.update(extra_evidence)
    ev = {
        "property_id": prop, "tier": tier, "seed": master_seed, "level": level, "coverage": cov,
        "assumptions": engine.ASSUMPTIONS, "wall_s": round(wall_s, 2), "violations": len(unknown),
    }
    jdump(ev, os.path.join(evidence_dir(), f"{prop}.json"))

    # ---- verdict -------------------------------------------------------------------------------
    print(f"[{prop}] tier={tier} seed={master_seed} runs={len(oks)} violating={len(viol)} "
          f"harness_errors={len(harness)} skipped={skipped} wall={wall_s:.1f}s "
          f"({cov['runs_per_hour']} runs/h, {workers} workers)")
    for what, reps in sorted(known_hit.items()):
        print(f"KNOWN-FINDING: property={prop} {what} (replay={reps[0]['path']}, {len(reps)} occurrence(s))")
    for rep in unknown[:10]:
        print(f"VIOLATION property={prop} replay={rep['path']}")
        print(f"  key={canon(rep['finding_key'])}")
    if len(unknown) > 10:
        print(f"  ... and {len(unknown) - 10} more violating runs")
    for i, msg in harness[:5]:
        print(f"HARNESS-ERROR task={i}: {msg[-3000:]}", file=sys.stderr)
    if unknown:
        return EXIT_VIOLATION
    if harness:
        return EXIT_HARNESS
    if not oks:
        print("HARNESS-ERROR: nothing ran", file=sys.stderr)
        return EXIT_HARNESS
    return EXIT_OK


def known_matcher(engine, prop):
    known = load_known_findings(prop)
    needs_min = getattr(engine, "KEY_NEEDS_MINIMISATION", True)
    stable = set(getattr(engine, "STABLE_KEY_FIELDS", ()))

    def known_entry(scn, res, v, minimised):
        key = engine.finding_key(scn, res, v)
        for e in known:
            if (minimised or not needs_min or set(e.get("key", {})) <= stable) and match_known(e, key):
                return e
        return None

    def reorder(scn, res, minimised=False):
        vs = res["violations"]
        unknown_first = [v for v in vs if known_entry(scn, res, v, minimised) is None]
        res["violations"] = unknown_first + [v for v in vs if v not in unknown_first]
        return not unknown_first     # True: every violation of this run is a listed finding

    return known_entry, reorder


def replay_file(engine, path):
    """Feed the recorded scenario and trace to the same engine; it must reproduce the same
    violation class, in a fresh process, or the harness reports itself broken (exit 2)."""
    rep = jload(path)
    zyg = Zygote(engine, 150.0, 90.0)
    res = zyg.execute(rep["scenario"])
    want = rep["violation"]["class"]
    prop = rep["property"]
    known_entry, reorder = known_matcher(engine, prop)
    if res["violations"] and reorder(rep["scenario"], res, rep.get("minimised", False)):
        e = known_entry(rep["scenario"], res, res["violations"][0], rep.get("minimised", False))
        print(f"replayed {path}: only a listed finding is left")
        print(f"KNOWN-FINDING: property={prop} {e['what']}")
        return EXIT_OK
    got = engine.violation_class(res)
    if got == want:
        print(f"replayed {path}: reproduced violation class {got!r}")
        v = res["violations"][0]
        for k in ("phase", "thread", "op_index", "op", "expected", "observed", "info"):
            if k in v:
                print(f"  {k}: {canon(v[k])[:600]}")
        print(f"VIOLATION property={prop} replay={path}")
        return EXIT_VIOLATION
    if got is None:
        same_tree = {k: v for k, v in tree_fingerprint().items()} == rep.get("tree")
        print(f"replayed {path}: no violation (recorded class was {want!r}; "
              f"{'SAME tree: replay is not reproducible' if same_tree else 'tree differs from the recorded one'})")
        return EXIT_HARNESS if same_tree else EXIT_OK
    print(f"replayed {path}: violation class {got!r} differs from recorded {want!r}")
    print(f"VIOLATION property={prop} replay={path}")
    return EXIT_VIOLATION


def run_digests(engine, tasks, workers):
    """Per-run digests of everything a run reports (for schedsim this includes the hash of the complete
    line-level event log); used by the determinism self-test."""
    results, _ = run_batch(engine, _run_task(engine), [dict(t) for t in tasks], workers=workers,
                           cfg={"run_timeout": 150.0, "ref_timeout": 90.0})
    out = []
    for r in results:
        out.append(digest([r[1]["summary"], r[1]["violations"]]) if r[0] == "ok" else f"ERR:{r[0]}")
    return out


def seeds_for(master, label, n):
    return [{"seed": derive_seed(master, label, i)} for i in range(n)]


__all__ = ["digest", "replay_file", "run_check", "seeds_for"]
