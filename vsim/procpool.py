"""Process images as the reference model (DESIGN 3.3).

    parent (imports adaptix from the tree under test, builds pools, warms up)   <- the pristine image
     └─ fork → worker_j  (ZYGOTE: generates scenarios, memoises references, never runs workload)
          ├─ fork → REF child per distinct reference request (fresh retort, one op, exit)
          └─ fork → RUN child per scenario execution (the system under test lives here)

Every run therefore starts from the identical image whether it is the first or the n-th run of a
worker, and nothing the history under test does can reach the reference.
"""
import faulthandler
import os
import pickle
import select
import signal
import struct
import sys
import traceback

from .common import HarnessError, canon, wall


def fork_call(fn, args=(), timeout=120.0, label="child"):
    """Run fn(*args) in a forked child, return its (picklable) result. Timeouts and crashes of the
    child are harness errors, never verdicts."""
    r, w = os.pipe()
    sys.stdout.flush()
    sys.stderr.flush()
    pid = os.fork()
    if pid == 0:
        code = 0
        try:
            os.close(r)
            faulthandler.dump_traceback_later(max(1.0, timeout - 0.5), exit=False)
            try:
                payload = ("ok", fn(*args))
            except BaseException:  # noqa: BLE001
                payload = ("err", traceback.format_exc())
            faulthandler.cancel_dump_traceback_later()
            data = pickle.dumps(payload)
            with os.fdopen(w, "wb") as f:
                f.write(struct.pack("<Q", len(data)))
                f.write(data)
        except BaseException:  # noqa: BLE001
            traceback.print_exc()
            code = 3
        finally:
            os._exit(code)
    os.close(w)
    buf = bytearray()
    deadline = wall() + timeout
    try:
        while True:
            left = deadline - wall()
            if left <= 0:
                os.kill(pid, signal.SIGKILL)
                os.waitpid(pid, 0)
                raise HarnessError(f"{label}: timeout after {timeout}s")
            ready, _, _ = select.select([r], [], [], min(left, 1.0))
            if ready:
                chunk = os.read(r, 1 << 16)
                if not chunk:
                    break
                buf += chunk
    finally:
        os.close(r)
    os.waitpid(pid, 0)
    if len(buf) < 8:
        raise HarnessError(f"{label}: child died without a result")
    (n,) = struct.unpack("<Q", bytes(buf[:8]))
    if len(buf) - 8 != n:
        raise HarnessError(f"{label}: truncated result")
    kind, val = pickle.loads(bytes(buf[8:]))
    if kind == "err":
        raise HarnessError(f"{label}: exception in child:\n{val}")
    return val


class Zygote:
    """Lives in a worker. Memoises references (pure by construction) and forks run children."""

    def __init__(self, engine, run_timeout=120.0, ref_timeout=60.0):
        self.engine = engine
        self.memo = {}
        self.run_timeout = run_timeout
        self.ref_timeout = ref_timeout
        self.ref_forks = 0
        self.run_forks = 0

    def refs_for(self, scenario):
        refs = {}
        for desc in self.engine.refs_needed(scenario):
            k = canon(desc)
            if k not in self.memo:
                self.memo[k] = fork_call(self.engine.compute_ref, (desc,), self.ref_timeout, "ref " + k[:200])
                self.ref_forks += 1
            refs[k] = self.memo[k]
        return refs

    def execute(self, scenario):
        refs = self.refs_for(scenario)
        self.run_forks += 1
        return fork_call(self.engine.execute, (scenario, refs), self.run_timeout,
                         "run " + canon(scenario)[:300])


def _worker_main(engine, task_fn, tasks, idx_lo, stride, wfd, cfg):
    """Static striding keeps the task → worker assignment a pure function of (n_tasks, n_workers);
    results are keyed by task index so aggregation does not depend on it anyway."""
    zyg = Zygote(engine, cfg.get("run_timeout", 120.0), cfg.get("ref_timeout", 60.0))
    out = os.fdopen(wfd, "wb")
    try:
        i = idx_lo
        while i < len(tasks):
            if cfg.get("deadline") is not None and wall() > cfg["deadline"]:
                res = ("skipped", None)
            else:
                try:
                    res = ("ok", task_fn(zyg, tasks[i]))
                except HarnessError as e:
                    res = ("harness", str(e))
                except BaseException:  # noqa: BLE001
                    res = ("harness", traceback.format_exc())
            data = pickle.dumps((i, res))
            out.write(struct.pack("<Q", len(data)))
            out.write(data)
            out.flush()
            i += stride
        data = pickle.dumps((-1, ("done", {"ref_forks": zyg.ref_forks, "run_forks": zyg.run_forks})))
        out.write(struct.pack("<Q", len(data)))
        out.write(data)
        out.flush()
    finally:
        out.close()


def run_batch(engine, task_fn, tasks, workers=16, cfg=None, progress=None):
    """Fork `workers` zygotes from the current (already warmed) process and spread tasks over them.
    Returns (results list aligned with tasks, stats). A lost worker is a harness error."""
    cfg = dict(cfg or {})
    workers = max(1, min(workers, len(tasks) or 1))
    procs = []
    sys.stdout.flush()
    sys.stderr.flush()
    for j in range(workers):
        r, w = os.pipe()
        pid = os.fork()
        if pid == 0:
            code = 0
            try:
                os.close(r)
                for _, fd, _ in procs:
                    os.close(fd)
                _worker_main(engine, task_fn, tasks, j, workers, w, cfg)
            except BaseException:  # noqa: BLE001
                traceback.print_exc()
                code = 3
            finally:
                os._exit(code)
        os.close(w)
        procs.append((pid, r, bytearray()))
    results = [None] * len(tasks)
    stats = {"ref_forks": 0, "run_forks": 0}
    open_fds = {r: k for k, (_, r, _) in enumerate(procs)}
    done_workers = set()
    n_done = 0
    n_harness = 0
    harness_limit = cfg.get("harness_limit", max(24, len(tasks) // 100))
    while open_fds:
        ready, _, _ = select.select(list(open_fds), [], [], 5.0)
        for fd in ready:
            k = open_fds[fd]
            pid, _, buf = procs[k]
            chunk = os.read(fd, 1 << 20)
            if not chunk:
                del open_fds[fd]
                os.close(fd)
                os.waitpid(pid, 0)
                continue
            buf += chunk
            while len(buf) >= 8:
                (n,) = struct.unpack("<Q", bytes(buf[:8]))
                if len(buf) < 8 + n:
                    break
                i, res = pickle.loads(bytes(buf[8:8 + n]))
                del buf[:8 + n]
                if i == -1:
                    done_workers.add(k)
                    for key, v in res[1].items():
                        stats[key] += v
                else:
                    results[i] = res
                    n_done += 1
                    n_harness += res[0] == "harness"
                    if progress is not None:
                        progress(n_done, len(tasks), res)
        if n_harness > harness_limit:
            # the machinery is failing systematically (e.g. threads stuck on a lock the simulator does not own):
            # stop burning wall-clock, report a harness error
            for pid, fd, _ in procs:
                try:
                    os.kill(pid, signal.SIGKILL)
                except ProcessLookupError:
                    pass
            for fd in list(open_fds):
                os.close(fd)
            open_fds.clear()
            for pid, _, _ in procs:
                try:
                    os.waitpid(pid, 0)
                except ChildProcessError:
                    pass
            for i, res in enumerate(results):
                if res is None:
                    results[i] = ("harness", f"batch aborted after {n_harness} harness errors")
            return results, stats
    if len(done_workers) != workers:
        lost = sorted(set(range(workers)) - done_workers)
        for i, res in enumerate(results):
            if res is None:
                results[i] = ("harness", f"worker lost before task {i} finished (workers {lost})")
    return results, stats
