"""Throwaway: random histories over a confusable pool, compare each op with a fresh retort."""
import sys, random, itertools, collections, enum, traceback
from dataclasses import dataclass, field
from typing import *
from decimal import Decimal
from adaptix import Retort, DebugTrail, name_mapping, loader, P, Chain
from adaptix.load_error import LoadError
from adaptix.struct_trail import get_trail
import adaptix._internal.type_tools.normalize_type; nt = sys.modules["adaptix._internal.type_tools.normalize_type"]
from functools import lru_cache

class Color(enum.IntEnum):
    R = 1; G = 0
class Fl(enum.Flag):
    A = 1; B = 2
N1 = NewType("N1", int); N2 = NewType("N2", int); N3 = NewType("N3", str)
@dataclass
class M1:
    a: int
    b: str = "x"
@dataclass
class M2:
    a: int
    b: str = "x"
@dataclass
class M3:
    a: bool
    b: str = "x"
T = TypeVar("T")
@dataclass
class G(Generic[T]):
    v: T
    w: List[T] = field(default_factory=list)
@dataclass
class Node:
    value: int
    children: List["Node"] = field(default_factory=list)
@dataclass
class Outer1:
    node: Node
@dataclass
class Outer2:
    node: Node

TYPES = [
 Literal[0,1], Literal[False,True], Literal[1,0], Literal[True,False], Literal[0], Literal[False], Literal[Color.R], Literal[1], Literal[True],
 Literal["a", 1], Literal["a", True], Literal[b"a"], Literal["a"],
 List[int], list[int], Sequence[int], Set[int], FrozenSet[int], Tuple[int, ...], Tuple[int], Iterable[int], List[bool], List[float],
 Dict[str,int], Mapping[str,int], DefaultDict[str,int], Dict[int,int], Dict[bool,int],
 Union[int,str], Union[str,int], Optional[int], Union[int,None], Union[None,int], Union[int,str,None], Union[bool,int], Union[int,bool], Union[float,int], Union[int,float],
 Optional[Literal[0,1]], Optional[Literal[False,True]], Union[Literal[0], Literal[False]], Union[Literal[0], str],
 N1, N2, N3, int, bool, float, str, Decimal, Color, Fl,
 Annotated[int, 0], Annotated[int, False], Annotated[int, "x"], Annotated[List[int], 1], Annotated[List[int], True],
 M1, M2, M3, List[M1], List[M2], Optional[M1], G[int], G[bool], G[Literal[0,1]], G[Literal[False,True]], G[str], Node, Outer1, Outer2, List[Node],
 Tuple[int,str], Tuple[bool,str], Tuple[Literal[0], Literal[1]], Tuple[Literal[False], Literal[True]],
]
DATA = [0, 1, True, False, "a", "1", b"a", "YQ==", None, 1.0, 0.0, [0,1], [True, False], [1], ["1"], (1,), {"a":1}, {"a":True}, {1:1}, {True: 1}, {"a":1,"b":"x"}, {"a":True,"b":"y"},
        {"v":1}, {"v":True,"w":[0,1]}, {"v":"s","w":["t"]}, {"value":1,"children":[{"value":2,"children":[{"value":3,"children":[{"value":4}]}]}]},
        {"node":{"value":1,"children":[{"value":2,"children":[{"value":3}]}]}}, [1,"a"], [True,"a"], [0,1], [False,True], [{"a":1}], 2, "x", 3]

def sig(v):
    if isinstance(v, (list, tuple)): return (type(v).__name__, tuple(sig(x) for x in v))
    if isinstance(v, (set, frozenset)): return (type(v).__name__, tuple(sorted(map(repr, map(sig, v)))))
    if isinstance(v, dict): return (type(v).__name__, tuple(sorted((repr(sig(k)), repr(sig(x))) for k, x in v.items())))
    if hasattr(v, "__dataclass_fields__"): return (type(v).__name__, tuple((f, sig(getattr(v, f))) for f in v.__dataclass_fields__))
    return (type(v).__name__, repr(v))
def esig(e):
    kids = getattr(e, "exceptions", None)
    base = (type(e).__name__, tuple(get_trail(e)))
    if kids is not None:
        return base + (tuple(sorted(repr(esig(k)) for k in kids)),)
    attrs = tuple((k, repr(v)) for k, v in sorted(vars(e).items()) if not k.startswith("_") and k not in ("msg",))
    return base + (attrs,)
def outcome(f):
    try:
        return ("ok", sig(f()))
    except LoadError as e:
        return ("loaderr", esig(e))
    except Exception as e:
        return ("exc", type(e).__name__, str(e)[:120] if not isinstance(e, ExceptionGroup) else esig(e))

def fresh_norm():
    nt._cached_normalize = lru_cache(maxsize=128)(nt._STD_NORMALIZER.normalize)

def mk(cfg):
    sc, dt = cfg
    return Retort(strict_coercion=sc, debug_trail=dt)

def run(seed, verbose=False):
    rng = random.Random(seed)
    cfg = (rng.random() < 0.7, rng.choice(list(DebugTrail)))
    fresh_norm()
    sut_cache = nt._cached_normalize
    r = mk(cfg)
    hist = []
    for step in range(rng.randint(2, 8)):
        tp = rng.choice(TYPES); d = rng.choice(DATA)
        kind = rng.choice(["load", "load", "get_loader"])
        nt._cached_normalize = sut_cache
        if kind == "load": got = outcome(lambda: r.load(d, tp))
        else: got = outcome(lambda: (r.get_loader(tp), 0)[1])
        fresh_norm()
        rr = mk(cfg)
        if kind == "load": exp = outcome(lambda: rr.load(d, tp))
        else: exp = outcome(lambda: (rr.get_loader(tp), 0)[1])
        hist.append((kind, str(tp), repr(d)))
        if got != exp:
            return (cfg, hist, got, exp)
    return None

if __name__ == "__main__":
    n = int(sys.argv[1]); bad = collections.OrderedDict()
    for s in range(n):
        try:
            v = run(s)
        except Exception:
            traceback.print_exc(); break
        if v:
            cfg, hist, got, exp = v
            key = (hist[-1][1], got[0], exp[0])
            bad.setdefault(key, (s, cfg, hist, got, exp))
    print("seeds", n, "distinct failing (type, got, exp):", len(bad))
    for k, (s, cfg, hist, got, exp) in list(bad.items())[:40]:
        print("---- seed", s, cfg, "\n hist:", hist, "\n got:", str(got)[:200], "\n exp:", str(exp)[:200])
