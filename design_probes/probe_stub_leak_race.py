import sys, threading
from dataclasses import dataclass
from typing import List
from adaptix import Retort
import adaptix._internal.retort.builtin_mediator as bm

@dataclass
class Node:
    value: int
    children: List["Node"]

retort = Retort()
paused = threading.Event()
resume = threading.Event()
target_file = bm.__file__

def tracer(frame, event, arg):
    if frame.f_code.co_filename != target_file or frame.f_code.co_name != "cached_call":
        return None
    def local(frame, event, arg):
        if event == "line" and frame.f_lineno == 60:  # 'return result' after insertion
            func = frame.f_locals["func"]
            if getattr(func, "__qualname__", "").startswith("ModelLoaderProvider._make_loader"):
                args = frame.f_locals["kwargs"]
                if any(type(v).__name__ == "FuncWrapper" for v in args["field_loaders"].mapping.values()) and not paused.is_set():
                    paused.set()
                    resume.wait()
        return local
    return local

resA = {}
def thread_a():
    sys.settrace(tracer)
    try:
        resA["loader"] = retort.get_loader(Node)
    finally:
        sys.settrace(None)

ta = threading.Thread(target=thread_a)
ta.start()
paused.wait(5)
print("A paused in window:", paused.is_set())
data = {"value": 1, "children": [{"value": 2, "children": [{"value": 3, "children": [{"value": 4, "children": []}]}]}]}
try:
    print("B:", retort.load(data, Node))
except BaseException as e:
    print("B raised:", type(e), e)
resume.set()
ta.join()
print("A after:", resA["loader"](data))
print("B again:", retort.load(data, Node))
