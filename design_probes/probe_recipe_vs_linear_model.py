"""Throwaway: random recipes of marker providers vs a linear chain-of-responsibility model."""
import sys, random, collections, abc
from typing import Sequence, List
from adaptix import Retort, loader, bound, P, Chain, CannotProvide, Provider, ProviderNotFoundError
from adaptix._internal.morphing.request_cls import LoaderRequest
from adaptix._internal.provider.request_checkers import AlwaysTrueRequestChecker

class A: pass
class B: pass
class Abs(abc.ABC):
    @abc.abstractmethod
    def f(self): ...
class C1(Abs):
    def f(self): pass
UNIVERSE = [A, B, C1, int]
PREDS = {
  "A": (A, lambda t: t is A, True), "B": (B, lambda t: t is B, True), "C1": (C1, lambda t: t is C1, True), "int": (int, lambda t: t is int, True),
  "Abs": (Abs, lambda t: issubclass(t, Abs), False), "ANY": (P.ANY, lambda t: True, False),
  "A|B": (P[A, B], lambda t: t in (A, B), False), "~A": (~P[A], lambda t: t is not A, False),
}
class Faulty(Provider):
    def __init__(self, idx, mode, log):
        self.idx, self.mode, self.log = idx, mode, log
    def get_request_handlers(self):
        def handler(mediator, request):
            self.log.append(self.idx)
            if self.mode == "decline": raise CannotProvide
            if self.mode == "terminal": raise CannotProvide(is_terminal=True)
            if self.mode == "crash": raise ZeroDivisionError(self.idx)
            if self.mode == "delegate":
                nxt = mediator.provide_from_next()
                return lambda x: nxt(x) + [("d", self.idx)]
            return lambda x: x + [("a", self.idx)]
        return [(LoaderRequest, AlwaysTrueRequestChecker(), handler)]

def gen(rng):
    n = rng.randint(1, 7)
    return [(rng.choice(list(PREDS)), rng.choice(["plain", "first", "last", "decline", "decline", "terminal", "crash", "delegate", "answer"])) for _ in range(n)]

def build(spec, log):
    rec = []
    for i, (pn, mode) in enumerate(spec):
        pred = PREDS[pn][0]
        if mode == "plain": rec.append(loader(pred, (lambda i: lambda x: x + [("p", i)])(i)))
        elif mode == "first": rec.append(loader(pred, (lambda i: lambda x: x + [("f", i)])(i), Chain.FIRST))
        elif mode == "last": rec.append(loader(pred, (lambda i: lambda x: x + [("l", i)])(i), Chain.LAST))
        else: rec.append(bound(pred, Faulty(i, mode, log)))
    rec.append(loader(P.ANY, lambda x: x + [("base",)]))
    return rec

def model(spec, tp):
    """returns (consult log of Faulty providers, outcome)"""
    log = []
    items = spec + [("ANY", "plain_base")]
    def serve(off):
        for i in range(off, len(items)):
            pn, mode = items[i]
            if not PREDS[pn][1](tp): continue
            if mode == "plain_base": return lambda x: x + [("base",)]
            if mode == "plain": return lambda x, i=i: x + [("p", i)]
            if mode == "first":
                nxt = serve(i + 1); return lambda x, i=i, nxt=nxt: nxt(x + [("f", i)])
            if mode == "last":
                nxt = serve(i + 1); return lambda x, i=i, nxt=nxt: nxt(x) + [("l", i)]
            log.append(i)
            if mode == "decline": continue
            if mode == "terminal": raise LookupError("terminal")
            if mode == "crash": raise ZeroDivisionError(i)
            if mode == "delegate":
                nxt = serve(i + 1); return lambda x, i=i, nxt=nxt: nxt(x) + [("d", i)]
            return lambda x, i=i: x + [("a", i)]
        raise LookupError("notfound")
    try:
        f = serve(0); return log, ("ok", f([]))
    except LookupError as e: return log, ("notfound",)
    except ZeroDivisionError as e: return log, ("crash", e.args[0])

def real(spec, tp):
    log = []
    r = Retort(recipe=build(spec, log))
    try:
        f = r.get_loader(tp); return log, ("ok", f([]))
    except ProviderNotFoundError: return log, ("notfound",)
    except ZeroDivisionError as e: return log, ("crash", e.args[0])
    except RecursionError: return log, ("recursion",)

n = int(sys.argv[1]); bad = []; shapes = collections.Counter()
for s in range(n):
    rng = random.Random(s); spec = gen(rng)
    for tp in UNIVERSE:
        m = model(spec, tp); r = real(spec, tp)
        if m != r:
            bad.append((s, spec, tp.__name__, m, r)); break
print("recipes", n, "mismatching", len(bad))
def groupable(spec): return "".join("E" if PREDS[p][2] else "n" for p, _ in spec)
for b in bad[:8]:
    print(b[0], groupable(b[1]), b[1], b[2], "\n   model:", b[3], "\n   real: ", b[4])
# does every mismatch contain the D1 shape: a lone exact group followed later by another exact provider?
