"""Throwaway feasibility prototype: baton-passing deterministic thread scheduler."""
import sys, os, threading, random, hashlib, time, json
from dataclasses import dataclass
from typing import List, Optional
import adaptix
from adaptix import Retort
ROOT = os.path.dirname(adaptix.__file__)

@dataclass
class Node:
    value: int
    children: List["Node"]

@dataclass
class Tree:
    v: int
    left: Optional["Tree"] = None
    right: Optional["Tree"] = None

class Sched:
    def __init__(self, seed, p_switch):
        self.rng = random.Random(seed)
        self.p = p_switch
        self.gates = {}
        self.runnable = []
        self.current = None
        self.steps = 0
        self.switches = 0
        self.h = hashlib.sha256()
        self.done = threading.Event()
        self.results = {}
        self.blocked = {}
        self.deadlock = False
    def add(self, tid, fn):
        self.gates[tid] = threading.Semaphore(0)
        def body():
            self.gates[tid].acquire()
            sys.settrace(self.make_tracer(tid))
            try:
                try:
                    self.results[tid] = ("ok", fn())
                except BaseException as e:
                    self.results[tid] = ("exc", type(e).__name__, str(e)[:100])
            finally:
                sys.settrace(None)
                self.finish(tid)
        t = threading.Thread(target=body, daemon=True)
        self.runnable.append(tid)
        return t
    def make_tracer(self, tid):
        def local(frame, event, arg):
            if event == "line":
                self.yield_point(tid, frame)
            return local
        def tracer(frame, event, arg):
            fn = frame.f_code.co_filename
            if fn.startswith(ROOT) or fn.startswith("<adaptix generated"):
                return local
            return None
        return tracer
    def yield_point(self, tid, frame):
        self.steps += 1
        fn = frame.f_code.co_filename
        self.h.update(f"{tid}:{os.path.basename(fn) if fn[0]!='<' else 'gen'}:{frame.f_lineno};".encode())
        if len(self.runnable) > 1 and self.rng.random() < self.p:
            nxt = self.rng.choice([t for t in self.runnable if t != tid])
            self.switches += 1
            self.current = nxt
            self.gates[nxt].release()
            self.gates[tid].acquire()
    def lock_acquire(self, lock):
        tid = self.current
        while lock.owner is not None:
            # block: hand over to another runnable thread
            self.blocked[tid] = lock
            self.runnable.remove(tid)
            if not self.runnable:
                self.deadlock = True
                self.done.set()
                self.gates[tid].acquire()  # park forever (daemon)
            nxt = self.rng.choice(self.runnable)
            self.switches += 1
            self.current = nxt
            self.gates[nxt].release()
            self.gates[tid].acquire()
        lock.owner = tid
    def lock_release(self, lock):
        lock.owner = None
        for t, l in list(self.blocked.items()):
            if l is lock:
                del self.blocked[t]
                self.runnable.append(t)
                self.runnable.sort()
    def finish(self, tid):
        self.runnable.remove(tid)
        if self.runnable:
            nxt = self.rng.choice(self.runnable)
            self.current = nxt
            self.gates[nxt].release()
        else:
            self.done.set()
    def run(self, threads):
        for t in threads: t.start()
        first = self.rng.choice(self.runnable)
        self.current = first
        self.gates[first].release()
        if not self.done.wait(30):
            raise RuntimeError("hang")
        for t in threads: t.join()

class SimLock:
    def __init__(self, sched): self.sched = sched; self.owner = None
    def __enter__(self): self.sched.lock_acquire(self)
    def __exit__(self, *a): self.sched.lock_release(self)

DATA = {"value": 1, "children": [{"value": 2, "children": [{"value": 3, "children": [{"value":4,"children":[]}]}]}]}
TDATA = {"v": 1, "left": {"v": 2, "left": {"v": 3, "left": {"v": 4}}}, "right": {"v": 5, "right": {"v": 6}}}

def one_run(seed):
    rng = random.Random(seed)
    p = rng.choice([1/20, 1/100, 1/500, 1/2000])
    r = Retort()
    s = Sched(seed, p)
    import adaptix._internal.code_tools.compiler as comp
    comp._counter._lock = SimLock(s)
    def prog(tp, data):
        def f():
            return repr(r.load(data, tp))
        return f
    ths = [s.add(0, prog(Node, DATA)), s.add(1, prog(Node, DATA)), s.add(2, prog(Tree, TDATA))]
    s.run(ths)
    return s

if __name__ == "__main__":
    Retort().load(DATA, Node); Retort().load(TDATA, Tree)
    n = int(sys.argv[1]); base = int(sys.argv[2])
    t = time.time()
    out = []
    bad = 0
    for i in range(n):
        s = one_run(base + i)
        ok = all(v[0] == "ok" for v in s.results.values())
        bad += (not ok)
        out.append((base+i, s.steps, s.switches, s.h.hexdigest()[:12], ok))
    dt = time.time() - t
    dig = hashlib.sha256(json.dumps(out).encode()).hexdigest()[:16]
    print(f"runs={n} wall={dt:.1f}s runs/s={n/dt:.1f} violations={bad} digest={dig}")
    for o in out[:5]: print(o)
    firstbad = next((o for o in out if not o[4]), None)
    print("first bad:", firstbad)
