import copy, io, collections, enum, typing
from dataclasses import dataclass, field
from typing import *
import attrs
from adaptix import Retort, name_mapping, ExtraCollect, ExtraKwargs, DebugTrail
from adaptix.conversion import get_converter

MUT = (list, dict, set, bytearray, collections.defaultdict, collections.deque, io.BytesIO)
def reach(o, acc=None, seen=None):
    acc = {} if acc is None else acc; seen = set() if seen is None else seen
    if id(o) in seen: return acc
    seen.add(id(o))
    if isinstance(o, MUT) or hasattr(o, "__dataclass_fields__") or attrs.has(type(o)): acc[id(o)] = o
    if isinstance(o, dict):
        for k, v in o.items(): reach(k, acc, seen); reach(v, acc, seen)
    elif isinstance(o, (list, tuple, set, frozenset, collections.deque)):
        for v in o: reach(v, acc, seen)
    elif hasattr(o, "__dataclass_fields__"):
        for f in o.__dataclass_fields__: reach(getattr(o, f), acc, seen)
    elif attrs.has(type(o)):
        for f in attrs.fields(type(o)): reach(getattr(o, f.name), acc, seen)
    elif hasattr(o, "_fields"):
        for v in o: reach(v, acc, seen)
    return acc

class NT(NamedTuple):
    a: int
    tags: List[int] = []
@dataclass
class Inner:
    xs: List[int]
    m: Dict[str, List[int]] = field(default_factory=dict)
@dataclass
class Outer:
    inner: Inner
    items: List[Inner] = field(default_factory=list)
    anyf: Any = None
    opt: Optional[List[int]] = None
    extra: Dict[str, Any] = field(default_factory=dict)
class TD(TypedDict, total=False):
    a: List[int]
    b: Dict[str, int]
@attrs.define
class AT:
    a: List[int]
    b: Set[int] = attrs.Factory(set)
@dataclass
class OuterDTO:
    inner: Inner
    items: List[Inner]
    opt: Optional[List[int]] = None
@dataclass
class Inner2:
    xs: List[int]
    m: Dict[str, List[int]]
@dataclass
class OuterDTO2:
    inner: Inner2
    items: List[Inner2]

CASES = [
 (List[int], [1,2]), (List[List[int]], [[1],[2]]), (Dict[str, List[int]], {"a":[1]}), (Set[int], [1,2]), (Tuple[List[int], ...], [[1]]), (Tuple[List[int], Dict[str,int]], [[1],{"a":1}]),
 (DefaultDict[str, List[int]], {"a":[1]}), (Optional[List[int]], [1]), (Union[List[int], str], [1]), (List[Any], [[1],{"a":1}]), (Any, [[1]]), (Dict[str, Any], {"a":[1]}),
 (bytearray, "YQ=="), (io.BytesIO, "YQ=="), (NT, {"a":1}), (NT, {"a":1,"tags":[1]}), (Inner, {"xs":[1],"m":{"k":[1]}}),
 (Outer, {"inner":{"xs":[1]},"items":[{"xs":[2]}],"anyf":[9],"opt":[1],"zzz":[7]}), (TD, {"a":[1],"b":{"x":1}}), (AT, {"a":[1],"b":[2]}), (List[Outer], [{"inner":{"xs":[1]}}]),
 (Sequence[List[int]], [[1]]), (Mapping[str, List[int]], {"a":[1]}), (Iterable[List[int]], [[1]]), (List[NT], [{"a":1}]),
]
for sc in (True, False):
  for dt in DebugTrail:
    r = Retort(strict_coercion=sc, debug_trail=dt, recipe=[name_mapping(Outer, extra_in="extra", extra_out="extra")])
    for tp, d in CASES:
        d1, d2 = copy.deepcopy(d), copy.deepcopy(d)
        snap = copy.deepcopy(d1)
        x1, x2 = r.load(d1, tp), r.load(d2, tp)
        assert d1 == snap, ("input mutated", tp)
        sh_arg = set(reach(x1)) & set(reach(d1)); sh_res = set(reach(x1)) & set(reach(x2))
        if sh_arg or sh_res:
            print("LOAD", sc, dt.name, tp, "shared-with-arg:", [reach(x1)[i] for i in sh_arg], "shared-between-results:", [reach(x1)[i] for i in sh_res])
        if tp in (Any,): continue
        y1 = copy.deepcopy(x1)
        try:
            o1, o2 = r.dump(x1, tp), r.dump(x1, tp)
        except Exception as e:
            print("DUMPFAIL", tp, type(e).__name__); continue
        sh_arg = set(reach(o1)) & set(reach(x1)); sh_res = set(reach(o1)) & set(reach(o2))
        if sh_arg or sh_res:
            print("DUMP", sc, dt.name, tp, "shared-with-arg:", [reach(o1)[i] for i in sh_arg], "shared-between-results:", [reach(o1)[i] for i in sh_res])
    break
c = get_converter(Outer, OuterDTO); c2 = get_converter(Outer, OuterDTO2)
src = Retort().load({"inner":{"xs":[1],"m":{"k":[1]}},"items":[{"xs":[2]}],"opt":[1]}, Outer)
a, b = c(src), c(src)
print("CONV same-type: shared with src:", [v for i, v in reach(a).items() if i in reach(src)], "| between results:", [v for i, v in reach(a).items() if i in reach(b)])
a, b = c2(src), c2(src)
print("CONV model-coerced: shared with src:", [v for i, v in reach(a).items() if i in reach(src)], "| between results:", [v for i, v in reach(a).items() if i in reach(b)])
