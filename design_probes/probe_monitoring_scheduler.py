"""Throwaway: baton-passing scheduler on sys.monitoring LINE events; single-preemption sweep."""
import sys, os, threading, time, hashlib
from dataclasses import dataclass
from typing import List
import adaptix
from adaptix import Retort
import adaptix._internal.code_tools.compiler as comp
ROOT = os.path.dirname(adaptix.__file__)
mon = sys.monitoring; TOOL = 3; mon.use_tool_id(TOOL, "vsim")

@dataclass
class Node:
    value: int
    children: List["Node"]
DATA = {"value": 1, "children": [{"value": 2, "children": [{"value": 3, "children": [{"value":4,"children":[]}]}]}]}

class Sched:
    def __init__(self, k):
        self.k = k; self.n0 = 0; self.gates = {}; self.ident2tid = {}; self.runnable = []; self.results = {}
        self.fired = False; self.done = threading.Event(); self.h = hashlib.sha256(); self.steps = 0
    def add(self, tid, fn):
        self.gates[tid] = threading.Semaphore(0)
        def body():
            self.gates[tid].acquire()
            self.ident2tid[threading.get_ident()] = tid
            try:
                try: self.results[tid] = ("ok", fn())
                except BaseException as e: self.results[tid] = ("exc", type(e).__name__)
            finally:
                del self.ident2tid[threading.get_ident()]
                self.finish(tid)
        self.runnable.append(tid)
        return threading.Thread(target=body, daemon=True)
    def on_line(self, code, lineno):
        fn = code.co_filename
        if not (fn.startswith(ROOT) or fn.startswith("<adaptix generated")): return mon.DISABLE
        tid = self.ident2tid.get(threading.get_ident())
        if tid is None: return
        self.steps += 1
        self.h.update(f"{tid}:{os.path.basename(fn)}:{lineno};".encode())
        if tid == 0:
            self.n0 += 1
            if self.n0 >= self.k and not self.fired and code.co_name != "generate_idx" and 1 in self.runnable:
                self.fired = True
                self.gates[1].release(); self.gates[0].acquire()
    def finish(self, tid):
        self.runnable.remove(tid)
        if self.runnable: self.gates[self.runnable[0]].release()
        else: self.done.set()
    def run(self, ths):
        mon.register_callback(TOOL, mon.events.LINE, self.on_line)
        mon.set_events(TOOL, mon.events.LINE)
        for t in ths: t.start()
        self.gates[0].release()
        ok = self.done.wait(10)
        mon.set_events(TOOL, 0)
        if not ok: raise RuntimeError("hang")
        for t in ths: t.join()

class SimLock:
    def __init__(self): self.l = threading.Lock()
    def __enter__(self): self.l.acquire()
    def __exit__(self, *a): self.l.release()

def one(k):
    r = Retort(); s = Sched(k)
    prog = lambda: repr(r.load(DATA, Node))
    s.run([s.add(0, prog), s.add(1, prog)])
    return s
Retort().load(DATA, Node); expected = ("ok", repr(Retort().load(DATA, Node)))
total = one(10**9).n0
print("thread0 steps", total)
t = time.time(); bad = []; digs = []
for k in range(1, total, 11):
    try:
        s = one(k)
    except RuntimeError:
        bad.append((k, "hang")); continue
    digs.append(s.h.hexdigest()[:8])
    if any(v != expected for v in s.results.values()): bad.append((k, dict(s.results)))
n = len(range(1, total, 11))
print(f"swept {n} in {time.time()-t:.1f}s ({n/(time.time()-t):.0f} runs/s) violating {len(bad)}; hangs {sum(1 for b in bad if b[1]=='hang')}")
print("first/last:", bad[0] if bad else None, bad[-1][0] if bad else None)
print("batch digest", hashlib.sha256("".join(digs).encode()).hexdigest()[:16])
