import sys, time, collections
import probe_baton_scheduler as sp
from adaptix import Retort
import adaptix._internal.code_tools.compiler as comp

class SinglePreempt(sp.Sched):
    """thread 0 runs k steps, then thread 1 runs to completion, then thread 0 resumes."""
    def __init__(self, k):
        super().__init__(0, 0)
        self.k = k
        self.n0 = 0
    def yield_point(self, tid, frame):
        self.steps += 1
        if tid == 0:
            self.n0 += 1
            if self.n0 == self.k and 1 in self.runnable:
                self.switches += 1
                self.current = 1
                self.gates[1].release()
                self.gates[0].acquire()
    def finish(self, tid):
        self.runnable.remove(tid)
        if self.runnable:
            nxt = self.runnable[0]
            self.current = nxt
            self.gates[nxt].release()
        else:
            self.done.set()
    def run(self, threads):
        for t in threads: t.start()
        self.current = 0
        self.gates[0].release()
        if not self.done.wait(30): raise RuntimeError("hang")
        for t in threads: t.join()

def one(k):
    r = Retort()
    s = SinglePreempt(k)
    comp._counter._lock = sp.SimLock(s)
    def prog():
        return repr(r.load(sp.DATA, sp.Node))
    ths = [s.add(0, prog), s.add(1, prog)]
    s.run(ths)
    return s

Retort().load(sp.DATA, sp.Node)
expected = repr(Retort().load(sp.DATA, sp.Node))
total = one(10**9).n0
print("thread0 steps:", total)
t = time.time(); bad = []
for k in range(1, total, 5):
    s = one(k)
    if any(v != ("ok", expected) for v in s.results.values()):
        bad.append((k, s.results))
print("swept", len(range(1,total,5)), "points in %.1fs" % (time.time()-t), "violating:", len(bad))
if bad:
    print("first:", bad[0][0], bad[0][1]); print("k range:", bad[0][0], bad[-1][0])
