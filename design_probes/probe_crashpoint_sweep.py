import sys, os, time, faulthandler, collections
from dataclasses import dataclass
from typing import List
from adaptix import Retort
import adaptix
root = os.path.dirname(adaptix.__file__)

@dataclass
class Node:
    value: int
    children: List["Node"]

class SimInterrupt(BaseException): pass

def run(k, count_only=False):
    r = Retort()
    n = [0]
    def tracer(frame, event, arg):
        if event == "call" and frame.f_code.co_filename.startswith(root):
            n[0] += 1
            if n[0] == k:
                raise SimInterrupt(f"{os.path.basename(frame.f_code.co_filename)}:{frame.f_code.co_name}")
        return None
    sys.settrace(tracer)
    try:
        r.get_loader(Node)
        out = "completed"
    except SimInterrupt as e:
        out = f"interrupted at {e}"
    finally:
        sys.settrace(None)
    if count_only: return n[0]
    data = {"value": 1, "children": [{"value": 2, "children": [{"value": 3, "children": [{"value":4,"children":[]}]}]}]}
    try:
        res = r.load(data, Node)
        ok = res == Retort().load(data, Node)
        return out, "OK" if ok else "WRONG"
    except BaseException as e:
        return out, f"POISONED {type(e).__name__}: {str(e)[:80]}"

Retort().get_loader(Node)
total = run(10**9, True)
print("call events:", total)
c = collections.Counter(); first = {}; sites = collections.Counter()
t=time.time()
for k in range(1, total+1):
    faulthandler.dump_traceback_later(10, exit=True)
    out, status = run(k)
    faulthandler.cancel_dump_traceback_later()
    key = status.split(":")[0]
    c[key] += 1
    first.setdefault(key, (k, out, status))
    if key != "OK": sites[out] += 1
print(c, "%.1fs" % (time.time()-t))
for k,v in first.items(): print(k, v)
print(sites.most_common(12))
