#!/venv/bin/python
"""Confirm a candidate seeded change and file it under /verif/seeded/<id>/.

usage: tools/adopt.py <candidate dir with patch.diff, demo.py, notes.md> <id> <property> <detect_with,comma> <needs text> [--source TEXT]

Confirmation (all in a scratch worktree of /repo HEAD under /tmp, removed afterwards): the patch applies, the
pinned suite still passes with it, the demonstration fails with it and passes without it. Nothing is filed
unless all of that holds.
"""
import json
import os
import shutil
import subprocess
import sys
import tempfile

PY = "/venv/bin/python"
REPO = "/repo"
VERIF = os.path.dirname(os.path.dirname(os.path.abspath(__file__)))


def run(cmd, cwd=None, env=None, timeout=2400):
    e = dict(os.environ)
    e.update(env or {})
    p = subprocess.run(cmd, cwd=cwd, env=e, stdout=subprocess.PIPE, stderr=subprocess.STDOUT, text=True, timeout=timeout)
    return p.returncode, p.stdout


def main():
    cand, sid, prop, detect, needs = sys.argv[1:6]
    source = sys.argv[7] if len(sys.argv) > 7 and sys.argv[6] == "--source" else (
        "round 6: written by an independent sub-agent that was given only the property text and its own scratch worktree "
        "(of /repo HEAD with the fix commits), nothing from /verif")
    wt = tempfile.mkdtemp(prefix="adopt-", dir="/tmp")
    os.rmdir(wt)
    try:
        rc, out = run(["git", "-C", REPO, "worktree", "add", "-f", "--detach", wt, "HEAD"])
        assert rc == 0, out
        rc, out = run(["git", "-C", wt, "apply", "--3way", os.path.join(cand, "patch.diff")])
        assert rc == 0, "patch does not apply: " + out
        demo = os.path.join(cand, "demo.py")
        rc_m, out_m = run([PY, demo], env={"PYTHONPATH": os.path.join(wt, "src")}, timeout=300)
        rc_c, out_c = run([PY, demo], env={"PYTHONPATH": os.path.join(REPO, "src")}, timeout=300)
        print(f"demo with patch: exit {rc_m}; without: exit {rc_c}")
        if rc_m == 0 or rc_c != 0:
            print("REJECTED: demonstration does not separate the trees\n", out_m[-500:], "\n---\n", out_c[-500:])
            return 1
        rc_s, out_s = run([PY, "-m", "pytest", "-q", "-p", "no:cacheprovider", "--timeout=900"], cwd=wt,
                          env={"PYTHONPATH": f"{wt}/src:{wt}/tests/tests_helpers"}, timeout=2400)
        last = out_s.strip().splitlines()[-1] if out_s.strip() else f"exit {rc_s}"
        print("suite:", last)
        if rc_s != 0 or "2588 passed" not in last:
            print("REJECTED: suite does not pass with the patch")
            return 1
        dst = os.path.join(VERIF, "seeded", sid)
        os.makedirs(dst, exist_ok=True)
        for f in ("patch.diff", "demo.py", "notes.md"):
            if os.path.exists(os.path.join(cand, f)):
                shutil.copyfile(os.path.join(cand, f), os.path.join(dst, f))
        meta = {"id": sid, "property": prop, "breaks": prop, "needs_to_manifest": needs, "detect_with": detect.split(","),
                "source": source,
                "confirmed": {"how": "patch applied to a scratch worktree of /repo HEAD (git apply --3way), full pinned suite run "
                                     "there, demo.py run with and without the patch (tools/adopt.py)",
                              "suite_with_patch": last.strip("= ").split(" in ")[0], "demo_with_patch": f"FAIL (exit {rc_m})",
                              "demo_without_patch": "PASS (exit 0)"}}
        with open(os.path.join(dst, "meta.json"), "w") as f:
            json.dump(meta, f, indent=1)
        print("FILED", dst)
        return 0
    finally:
        run(["git", "-C", REPO, "worktree", "remove", "--force", wt])
        shutil.rmtree(wt, ignore_errors=True)
        run(["git", "-C", REPO, "worktree", "prune"])


if __name__ == "__main__":
    sys.exit(main())
