#!/venv/bin/python
"""Regenerate the table of DESIGN.md 13.5 from seeded/RESULTS.json and print the tallies."""
import glob
import json
import os
import subprocess

root = os.path.dirname(os.path.dirname(os.path.abspath(__file__)))
table = subprocess.run(["/venv/bin/python", os.path.join(root, "tools", "sens_table.py")], capture_output=True, text=True).stdout
table = "\n".join(ln for ln in table.splitlines() if ln.startswith("|"))
p = os.path.join(root, "DESIGN.md")
s = open(p).read()
i = s.index("| seeded change | source | needs | quick tier | by which check |")
j = s.index("### 13.6 What a quick run covers")
s = s[:i] + table + "\n\n" + s[j:]
open(p, "w").write(s)
res = {r["id"]: r for r in json.load(open(os.path.join(root, "seeded", "RESULTS.json")))["results"]}
ids = sorted(os.path.basename(os.path.dirname(d)) for d in glob.glob(os.path.join(root, "seeded", "*", "meta.json")))
det = [i for i in ids if res.get(i, {}).get("detected")]
print("total", len(ids), "detected", len(det), "not detected", [i for i in ids if i not in det])
for rnd in ("-r6-", "-r7-"):
    sub = [i for i in ids if rnd in i]
    print(rnd, len(sub), "detected", sum(1 for i in sub if i in det))
