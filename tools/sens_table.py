"""Render seeded/RESULTS.json + seeded/*/meta.json as the markdown table of DESIGN.md 13.5."""
import glob
import json
import os

root = os.path.dirname(os.path.dirname(os.path.abspath(__file__)))
res = {r["id"]: r for r in json.load(open(os.path.join(root, "seeded", "RESULTS.json")))["results"]}
rows = []
for d in sorted(glob.glob(os.path.join(root, "seeded", "*", "meta.json"))):
    m = json.load(open(d))
    r = res.get(m["id"], {})
    import re
    mm = re.search(r"-r([2-9])-", m["id"])
    src = ("own" if "-own-" in m["id"] else "revert" if "-revert-" in m["id"] else f"agent r{mm.group(1)}" if mm else "agent r1")
    how = []
    for chk, c in (r.get("checks") or {}).items():
        if c.get("exit") == 1:
            k = c.get("first_key", "")
            cls = k.split('"class":"')[1].split('"')[0] if '"class":"' in k else "?"
            how.append(f"{chk}: {c.get('violation_lines')}+ runs, first class `{cls}`, replay {c.get('replay_on_mutant_exit')}/{c.get('replay_on_unchanged_exit')}")
        else:
            how.append(f"{chk}: exit {c.get('exit')}")
    verdict = "detected" if r.get("detected") else ("**missed (documented)**" if m.get("known_miss") else "**missed**" if r else "not run")
    rows.append(f"| `{m['id']}` | {src} | {m['needs_to_manifest'][:150]}{'…' if len(m['needs_to_manifest']) > 150 else ''} | {verdict} | {'; '.join(how)} |")
print("| seeded change | source | needs | quick tier | by which check |")
print("|---|---|---|---|---|")
print("\n".join(rows))
