#!/venv/bin/python
"""Merge the sensitivity results of a `vp run` snapshot into /verif/seeded (RESULTS.json rows and replay files).

usage: tools/merge_results.py <snapshot verif dir> [commit]
Rows are tagged with the commit of /verif they were produced at ("at_commit"): the table in DESIGN 13.5 is
documentation of the machinery's sensitivity, not evidence (evidence/*.json comes from runs in /verif itself).
"""
import glob
import json
import os
import shutil
import subprocess
import sys

root = os.path.dirname(os.path.dirname(os.path.abspath(__file__)))
snap = sys.argv[1]
commit = sys.argv[2] if len(sys.argv) > 2 else subprocess.run(
    ["git", "-C", snap, "rev-parse", "--short", "HEAD"], capture_output=True, text=True).stdout.strip()
src = json.load(open(os.path.join(snap, "seeded", "RESULTS.json")))
dst_file = os.path.join(root, "seeded", "RESULTS.json")
dst = json.load(open(dst_file))
old = json.load(open(os.path.join(snap, "seeded", "RESULTS.json.orig"))) if os.path.exists(
    os.path.join(snap, "seeded", "RESULTS.json.orig")) else None
base = subprocess.run(["git", "-C", snap, "show", "HEAD:seeded/RESULTS.json"], capture_output=True, text=True).stdout
base_rows = {r["id"]: r for r in json.loads(base)["results"]} if base.strip() else {}
rows = {r["id"]: r for r in dst["results"]}
n = 0
for r in src["results"]:
    if base_rows.get(r["id"]) == r:
        continue          # unchanged since the snapshot was taken: not produced by this run
    r = dict(r)
    r["at_commit"] = commit
    rows[r["id"]] = r
    n += 1
    for f in glob.glob(os.path.join(snap, "seeded", r["id"], "replay-*.json")):
        shutil.copyfile(f, os.path.join(root, "seeded", r["id"], os.path.basename(f)))
dst["results"] = [rows[k] for k in sorted(rows)]
json.dump(dst, open(dst_file, "w"), indent=1)
print(f"merged {n} rows from {snap} ({commit})")
